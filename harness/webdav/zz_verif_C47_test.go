//go:build verif

package webdav

// C47: a dead property set with PROPPATCH comes back from PROPFIND with the same name and the
// same inner XML, and a PROPPATCH remove removes it (memFS resources).
//
// Monitor shape: HIST over Handler.ServeHTTP called directly (no network) on NewMemFS().
// The harness owns
//   - a document model (c47Node: element / text / comment / PI trees with expanded names),
//   - a serializer that spells one model in many XML ways (prefix choice, default namespace
//     (re)declaration, prefix shadowing incl. the response's own "D", entity vs. decimal vs.
//     hex character references, CDATA sections, attribute quoting, attribute order,
//     whitespace inside tags, comments/PIs),
//   - a response reader built on encoding/xml's RawToken (lexing only) with its own namespace
//     resolution, so an unbound or wrongly bound prefix in a response is seen,
//   - a canonical form (expanded names, sorted attributes, merged character data, comments and
//     PIs dropped) in which "same inner XML" is decided, and
//   - the model of the server state: map[path]map[xml.Name]{lang, canonical value}.
// Nothing of package webdav or of its internal xml fork is used to build requests, to read
// responses or to decide equality.

import (
	"encoding/xml"
	"fmt"
	"hash/fnv"
	"io"
	"math/rand/v2"
	"net/url"
	"sort"
	"strconv"
	"strings"
	"sync"
	"testing"
	"unicode/utf8"

	"golang.org/x/net/internal/verifrt"
)

const (
	c47XMLNS = "http://www.w3.org/XML/1998/namespace"
	c47DAV   = "DAV:"
	c47Host  = "dav.example"
)

// ---------------------------------------------------------------------------------------
// Document model

const (
	c47Text = iota
	c47Elem
	c47Comment
	c47PI
)

type c47Attr struct{ Space, Local, Value string }

type c47Node struct {
	Kind         int
	Text         string // text, comment body, or PI "target inst"
	Space, Local string
	Attrs        []c47Attr
	Kids         []*c47Node
	Pad          bool // structural element: whitespace/comments between children are insignificant
}

func c47T(s string) *c47Node { return &c47Node{Kind: c47Text, Text: s} }
func c47E(space, local string, kids ...*c47Node) *c47Node {
	return &c47Node{Kind: c47Elem, Space: space, Local: local, Kids: kids}
}

// c47Canon renders a node list canonically: expanded names, attributes sorted by expanded
// name, adjacent character data merged, empty character data, comments and PIs dropped.
func c47Canon(kids []*c47Node) string {
	var b strings.Builder
	c47CanonTo(&b, kids)
	return b.String()
}

func c47CanonTo(b *strings.Builder, kids []*c47Node) {
	pend := ""
	flush := func() {
		if pend != "" {
			b.WriteString("T")
			b.WriteString(strconv.Quote(pend))
			pend = ""
		}
	}
	for _, k := range kids {
		switch k.Kind {
		case c47Text:
			pend += k.Text
		case c47Elem:
			flush()
			b.WriteString("E{" + k.Space + "}" + k.Local)
			as := append([]c47Attr(nil), k.Attrs...)
			sort.Slice(as, func(i, j int) bool {
				if as[i].Space != as[j].Space {
					return as[i].Space < as[j].Space
				}
				return as[i].Local < as[j].Local
			})
			for _, a := range as {
				b.WriteString(" @{" + a.Space + "}" + a.Local + "=" + strconv.Quote(a.Value))
			}
			b.WriteString("(")
			c47CanonTo(b, k.Kids)
			b.WriteString(")")
		}
	}
	flush()
}

// c47DiffClass names the first kind of difference between two canonical strings' trees; it
// only feeds the violation key.
func c47DiffClass(want, got []*c47Node) string {
	w, g := c47Flat(want), c47Flat(got)
	for i := 0; i < len(w) && i < len(g); i++ {
		if w[i] == g[i] {
			continue
		}
		wk, gk := w[i][:1], g[i][:1]
		switch {
		case wk == "T" && gk == "T":
			return "text"
		case wk == "E" && gk == "E":
			return "element-name"
		case wk == "@" && gk == "@":
			return "attribute"
		default:
			return "structure"
		}
	}
	if len(w) != len(g) {
		return "structure"
	}
	return "none"
}

func c47Flat(kids []*c47Node) []string {
	var out []string
	pend := ""
	flush := func() {
		if pend != "" {
			out = append(out, "T"+pend)
			pend = ""
		}
	}
	for _, k := range kids {
		switch k.Kind {
		case c47Text:
			pend += k.Text
		case c47Elem:
			flush()
			out = append(out, "E{"+k.Space+"}"+k.Local)
			as := append([]c47Attr(nil), k.Attrs...)
			sort.Slice(as, func(i, j int) bool {
				if as[i].Space != as[j].Space {
					return as[i].Space < as[j].Space
				}
				return as[i].Local < as[j].Local
			})
			for _, a := range as {
				out = append(out, "@{"+a.Space+"}"+a.Local+"="+a.Value)
			}
			out = append(out, c47Flat(k.Kids)...)
			out = append(out, ")")
		}
	}
	flush()
	return out
}

// ---------------------------------------------------------------------------------------
// Serializer: one model, many spellings

type c47W struct {
	rng *rand.Rand
	b   strings.Builder
	// what the spelling actually used (for the evidence counters)
	usedCDATA, usedCharRef, usedEntity, shadowedD, redeclDefault, usedAposQuote, attrCDEnd bool
	// plain: never spell "]]>" literally inside an attribute value
	plain bool
}

var c47Prefixes = []string{"D", "D", "d", "a", "b", "ns0", "x", "_", "p1", "ü", "DAV", "lp1", "R"}

func (w *c47W) ws() string {
	return []string{" ", " ", " ", "\n", "\t", "  ", "\n  "}[w.rng.IntN(7)]
}

func (w *c47W) optws() string {
	if w.rng.IntN(4) == 0 {
		return w.ws()
	}
	return ""
}

func (w *c47W) charRef(r rune) string {
	w.usedCharRef = true
	switch w.rng.IntN(3) {
	case 0:
		return fmt.Sprintf("&#%d;", r)
	case 1:
		return fmt.Sprintf("&#x%X;", r)
	}
	return fmt.Sprintf("&#x%x;", r)
}

func (w *c47W) entOrRef(ent string, r rune) string {
	if w.rng.IntN(2) == 0 {
		w.usedEntity = true
		return ent
	}
	return w.charRef(r)
}

// text writes character data s in a random but equivalent spelling.
func (w *c47W) text(s string) {
	inCDATA := false
	rawTail := "" // last two raw chars inside the current CDATA section
	// lastOut is the last byte written so far, across adjacent text nodes: "]]" and ">" may
	// come from two neighbouring character-data nodes and still must not spell "]]>".
	lastOut := byte(0)
	if cur := w.b.String(); len(cur) > 0 {
		lastOut = cur[len(cur)-1]
	}
	emit := func(x string) {
		if x != "" {
			w.b.WriteString(x)
			lastOut = x[len(x)-1]
		}
	}
	cdataProb := 0
	if w.rng.IntN(3) == 0 {
		cdataProb = 1 + w.rng.IntN(6)
	}
	refProb := 0
	if w.rng.IntN(4) == 0 {
		refProb = 1 + w.rng.IntN(8)
	}
	for _, r := range s {
		if inCDATA {
			closeIt := w.rng.IntN(12) == 0 || r == '\r' || (r == '>' && rawTail == "]]")
			if closeIt {
				emit("]]>")
				inCDATA = false
			}
		} else if cdataProb > 0 && w.rng.IntN(10) < cdataProb && r != '\r' {
			emit("<![CDATA[")
			w.usedCDATA = true
			inCDATA = true
			rawTail = ""
		}
		if inCDATA {
			emit(string(r))
			rawTail += string(r)
			if len(rawTail) > 2 {
				rawTail = rawTail[len(rawTail)-2:]
			}
			continue
		}
		switch r {
		case '<':
			emit(w.entOrRef("&lt;", r))
		case '&':
			emit(w.entOrRef("&amp;", r))
		case '>':
			if lastOut != ']' && w.rng.IntN(2) == 0 {
				emit(">")
			} else {
				emit(w.entOrRef("&gt;", r))
			}
		case '"':
			if w.rng.IntN(2) == 0 {
				emit(`"`)
			} else {
				emit(w.entOrRef("&quot;", r))
			}
		case '\'':
			if w.rng.IntN(2) == 0 {
				emit("'")
			} else {
				emit(w.entOrRef("&apos;", r))
			}
		case '\r':
			emit(w.charRef(r)) // a literal CR would be normalised away by any XML parser
		default:
			if refProb > 0 && w.rng.IntN(10) < refProb {
				emit(w.charRef(r))
			} else {
				emit(string(r))
			}
		}
	}
	if inCDATA {
		emit("]]>")
	}
	if s == "" && w.rng.IntN(6) == 0 {
		emit("<![CDATA[]]>")
		w.usedCDATA = true
	}
}

// attrValue writes a quoted attribute value.
func (w *c47W) attrValue(s string) {
	q := byte('"')
	if w.rng.IntN(3) == 0 {
		q = '\''
		w.usedAposQuote = true
	}
	w.b.WriteByte(q)
	from := w.b.Len()
	defer func() {
		// "]]>" is only forbidden in character data; AttValue allows it (XML 1.0 production 10)
		if strings.Contains(w.b.String()[from:], "]]>") {
			w.attrCDEnd = true
		}
	}()
	for _, r := range s {
		switch {
		case r == '<':
			w.b.WriteString(w.entOrRef("&lt;", r))
		case r == '&':
			w.b.WriteString(w.entOrRef("&amp;", r))
		case r == '>':
			if w.rng.IntN(2) == 0 && !w.plain {
				w.b.WriteString(">")
			} else {
				w.b.WriteString(w.entOrRef("&gt;", r))
			}
		case r == '"':
			if q == '"' || w.rng.IntN(2) == 0 {
				w.b.WriteString(w.entOrRef("&quot;", r))
			} else {
				w.b.WriteString(`"`)
			}
		case r == '\'':
			if q == '\'' || w.rng.IntN(2) == 0 {
				w.b.WriteString(w.entOrRef("&apos;", r))
			} else {
				w.b.WriteString("'")
			}
		case r == '\t' || r == '\n' || r == '\r':
			w.b.WriteString(w.charRef(r)) // literal white space would be attribute-value normalised
		default:
			if w.rng.IntN(20) == 0 {
				w.b.WriteString(w.charRef(r))
			} else {
				w.b.WriteString(string(r))
			}
		}
	}
	w.b.WriteByte(q)
}

func c47CopyScope(sc map[string]string) map[string]string {
	n := make(map[string]string, len(sc)+2)
	for k, v := range sc {
		n[k] = v
	}
	return n
}

// pickPrefix returns a prefix bound to ns for a name on the element being written: an
// in-scope one when possible (and the dice agree), else a fresh declaration recorded in decl.
// used holds the prefixes this element already relies on (they must not be rebound here).
func (w *c47W) pickPrefix(ns string, sc, decl map[string]string, used map[string]bool, allowDefault bool) string {
	var cands []string
	for p, u := range sc {
		if u != ns || (p == "" && !allowDefault) {
			continue
		}
		if d, ok := decl[p]; ok && d != ns {
			continue // rebound on this very element
		}
		cands = append(cands, p)
	}
	for p, u := range decl {
		if u == ns && (p != "" || allowDefault) && sc[p] != ns {
			cands = append(cands, p)
		}
	}
	sort.Strings(cands)
	if len(cands) > 0 && w.rng.IntN(3) != 0 {
		p := cands[w.rng.IntN(len(cands))]
		used[p] = true
		return p
	}
	for try := 0; ; try++ {
		var p string
		switch {
		case allowDefault && w.rng.IntN(4) == 0:
			p = ""
		case try < 8:
			p = c47Prefixes[w.rng.IntN(len(c47Prefixes))]
		default:
			p = "g" + strconv.Itoa(try)
		}
		if used[p] {
			continue
		}
		if d, ok := decl[p]; ok && d != ns {
			continue
		}
		if p == "D" && ns != c47DAV {
			w.shadowedD = true
		}
		if p == "" && sc[""] != "" && sc[""] != ns {
			w.redeclDefault = true
		}
		decl[p] = ns
		used[p] = true
		return p
	}
}

func c47QName(prefix, local string) string {
	if prefix == "" {
		return local
	}
	return prefix + ":" + local
}

// elem writes n and its subtree; sc is the namespace scope outside n (prefix -> URI, "" is
// the default namespace).
func (w *c47W) elem(n *c47Node, sc map[string]string) {
	decl := map[string]string{}
	used := map[string]bool{}
	var ePrefix string
	if n.Space == "" {
		if sc[""] != "" {
			decl[""] = ""
			w.redeclDefault = true
		}
		used[""] = true
	} else {
		ePrefix = w.pickPrefix(n.Space, sc, decl, used, true)
	}
	type wa struct{ q, v string }
	var was []wa
	for _, a := range n.Attrs {
		switch a.Space {
		case "":
			was = append(was, wa{a.Local, a.Value})
		case c47XMLNS:
			was = append(was, wa{"xml:" + a.Local, a.Value})
		default:
			p := w.pickPrefix(a.Space, sc, decl, used, false)
			was = append(was, wa{p + ":" + a.Local, a.Value})
		}
	}
	// Unused declarations, now and then: a junk prefix, or a default-namespace redeclaration
	// when this element's own name does not depend on the default namespace.
	if w.rng.IntN(8) == 0 {
		p := c47Prefixes[w.rng.IntN(len(c47Prefixes))]
		if _, ok := decl[p]; !ok && !used[p] {
			decl[p] = []string{"urn:unused", "http://unused.example/D", c47DAV}[w.rng.IntN(3)]
			if p == "D" && decl[p] != c47DAV {
				w.shadowedD = true
			}
		}
	}
	if w.rng.IntN(10) == 0 && !used[""] {
		if _, ok := decl[""]; !ok {
			decl[""] = []string{"urn:default-junk", c47DAV, "http://example.com/ns"}[w.rng.IntN(3)]
			w.redeclDefault = true
		}
	}
	q := c47QName(ePrefix, n.Local)
	w.b.WriteString("<" + q)
	// namespace declarations and attributes in random order
	type item struct {
		q, v string
	}
	var items []item
	dk := make([]string, 0, len(decl))
	for p := range decl {
		dk = append(dk, p)
	}
	sort.Strings(dk)
	for _, p := range dk {
		if p == "" {
			items = append(items, item{"xmlns", decl[p]})
		} else {
			items = append(items, item{"xmlns:" + p, decl[p]})
		}
	}
	for _, a := range was {
		items = append(items, item{a.q, a.v})
	}
	w.rng.Shuffle(len(items), func(i, j int) { items[i], items[j] = items[j], items[i] })
	for _, it := range items {
		w.b.WriteString(w.ws())
		w.b.WriteString(it.q)
		w.b.WriteString(w.optws() + "=" + w.optws())
		w.attrValue(it.v)
	}
	inner := c47CopyScope(sc)
	for p, u := range decl {
		inner[p] = u
	}
	if len(n.Kids) == 0 && !n.Pad && w.rng.IntN(2) == 0 {
		w.b.WriteString(w.optws() + "/>")
		return
	}
	w.b.WriteString(w.optws() + ">")
	w.kids(n, inner)
	w.b.WriteString("</" + q + w.optws() + ">")
}

func (w *c47W) pad() {
	switch w.rng.IntN(8) {
	case 0, 1, 2:
		w.b.WriteString(w.ws())
	case 3:
		w.b.WriteString("\n<!-- pad & <D:prop> -->\n")
	case 4:
		w.b.WriteString(" <?pad x=\"1\"?> ")
	}
}

func (w *c47W) kids(n *c47Node, sc map[string]string) {
	for _, k := range n.Kids {
		if n.Pad {
			w.pad()
		}
		switch k.Kind {
		case c47Text:
			w.text(k.Text)
		case c47Elem:
			w.elem(k, sc)
		case c47Comment:
			w.b.WriteString("<!--" + k.Text + "-->")
		case c47PI:
			w.b.WriteString("<?" + k.Text + "?>")
		}
	}
	if n.Pad {
		w.pad()
	}
}

// c47StripPad removes the character data between the structural elements of a parsed
// request (levels 0..depth below n), where the writer inserted insignificant padding.
func c47StripPad(n *c47Node, depth int) {
	var kept []*c47Node
	for _, k := range n.Kids {
		if k.Kind == c47Text {
			continue
		}
		kept = append(kept, k)
		if depth > 0 {
			c47StripPad(k, depth-1)
		}
	}
	n.Kids = kept
}

// c47Doc spells a whole document.
func c47Doc(rng *rand.Rand, root *c47Node) (string, *c47W) {
	return c47DocOpt(rng, root, false)
}

func c47DocOpt(rng *rand.Rand, root *c47Node, plain bool) (string, *c47W) {
	w := &c47W{rng: rng, plain: plain}
	switch rng.IntN(5) {
	case 0:
		w.b.WriteString(`<?xml version="1.0" encoding="utf-8"?>` + "\n")
	case 1:
		w.b.WriteString(`<?xml version="1.0" encoding="UTF-8" ?>`)
	case 2:
		w.b.WriteString(`<?xml version='1.0'?>` + "\n<!-- prolog -->\n")
	}
	w.elem(root, map[string]string{})
	if rng.IntN(4) == 0 {
		w.b.WriteString("\n<!-- epilog -->\n")
	}
	return w.b.String(), w
}

// ---------------------------------------------------------------------------------------
// Response reader: encoding/xml RawToken for lexing, namespace resolution done here

func c47Parse(data string) (*c47Node, error) {
	d := xml.NewDecoder(strings.NewReader(data))
	type frame struct {
		n   *c47Node
		raw xml.Name
		sc  map[string]string
	}
	root := &c47Node{Kind: c47Elem, Local: "#document"}
	stack := []frame{{n: root, sc: map[string]string{}}}
	for {
		tok, err := d.RawToken()
		if err == io.EOF {
			break
		}
		if err != nil {
			return nil, fmt.Errorf("not well-formed: %v", err)
		}
		top := &stack[len(stack)-1]
		switch t := tok.(type) {
		case xml.StartElement:
			sc := c47CopyScope(top.sc)
			for _, a := range t.Attr {
				if a.Name.Space == "" && a.Name.Local == "xmlns" {
					sc[""] = a.Value
				} else if a.Name.Space == "xmlns" {
					if a.Value == "" {
						return nil, fmt.Errorf("prefix %q undeclared with an empty URI", a.Name.Local)
					}
					sc[a.Name.Local] = a.Value
				}
			}
			n := &c47Node{Kind: c47Elem, Local: t.Name.Local}
			switch t.Name.Space {
			case "":
				n.Space = sc[""]
			case "xml":
				n.Space = c47XMLNS
			default:
				u, ok := sc[t.Name.Space]
				if !ok {
					return nil, fmt.Errorf("element <%s:%s> uses an unbound prefix", t.Name.Space, t.Name.Local)
				}
				n.Space = u
			}
			if strings.Contains(t.Name.Local, ":") {
				return nil, fmt.Errorf("element local name %q contains a colon", t.Name.Local)
			}
			seen := map[string]bool{}
			for _, a := range t.Attr {
				if (a.Name.Space == "" && a.Name.Local == "xmlns") || a.Name.Space == "xmlns" {
					continue
				}
				at := c47Attr{Local: a.Name.Local, Value: a.Value}
				switch a.Name.Space {
				case "":
				case "xml":
					at.Space = c47XMLNS
				default:
					u, ok := sc[a.Name.Space]
					if !ok {
						return nil, fmt.Errorf("attribute %s:%s uses an unbound prefix", a.Name.Space, a.Name.Local)
					}
					at.Space = u
				}
				k := at.Space + "\x00" + at.Local
				if seen[k] {
					return nil, fmt.Errorf("duplicate attribute {%s}%s", at.Space, at.Local)
				}
				seen[k] = true
				n.Attrs = append(n.Attrs, at)
			}
			top.n.Kids = append(top.n.Kids, n)
			stack = append(stack, frame{n: n, raw: t.Name, sc: sc})
		case xml.EndElement:
			if len(stack) == 1 {
				return nil, fmt.Errorf("end tag </%s> without start tag", t.Name.Local)
			}
			if top.raw != t.Name {
				return nil, fmt.Errorf("end tag </%s:%s> closes <%s:%s>", t.Name.Space, t.Name.Local, top.raw.Space, top.raw.Local)
			}
			stack = stack[:len(stack)-1]
		case xml.CharData:
			if len(stack) == 1 {
				if strings.TrimSpace(string(t)) != "" {
					return nil, fmt.Errorf("character data outside the root element")
				}
				continue
			}
			top.n.Kids = append(top.n.Kids, c47T(string(t)))
		case xml.Comment, xml.ProcInst, xml.Directive:
		}
	}
	if len(stack) != 1 {
		return nil, fmt.Errorf("unclosed element <%s>", stack[len(stack)-1].raw.Local)
	}
	var elems []*c47Node
	for _, k := range root.Kids {
		if k.Kind == c47Elem {
			elems = append(elems, k)
		}
	}
	if len(elems) != 1 {
		return nil, fmt.Errorf("%d root elements", len(elems))
	}
	return elems[0], nil
}

type c47RProp struct {
	Name    xml.Name
	Lang    string
	HasLang bool
	Kids    []*c47Node
	Status  int
}

type c47RResp struct {
	Href  string
	Path  string // unescaped, trailing slash removed ("/" stays)
	Props []c47RProp
}

func c47ElemKids(n *c47Node) (out []*c47Node) {
	for _, k := range n.Kids {
		if k.Kind == c47Elem {
			out = append(out, k)
		}
	}
	return
}

func c47TextOf(n *c47Node) string {
	s := ""
	for _, k := range n.Kids {
		if k.Kind == c47Text {
			s += k.Text
		}
	}
	return s
}

// c47Multistatus extracts the responses of a 207 body.
func c47Multistatus(body string) ([]c47RResp, error) {
	root, err := c47Parse(body)
	if err != nil {
		return nil, err
	}
	if root.Space != c47DAV || root.Local != "multistatus" {
		return nil, fmt.Errorf("root element is {%s}%s", root.Space, root.Local)
	}
	var out []c47RResp
	for _, re := range c47ElemKids(root) {
		if re.Space != c47DAV || re.Local != "response" {
			if re.Space == c47DAV && re.Local == "responsedescription" {
				continue
			}
			return nil, fmt.Errorf("unexpected {%s}%s in multistatus", re.Space, re.Local)
		}
		var rr c47RResp
		for _, ch := range c47ElemKids(re) {
			if ch.Space != c47DAV {
				return nil, fmt.Errorf("unexpected {%s}%s in response", ch.Space, ch.Local)
			}
			switch ch.Local {
			case "href":
				rr.Href = c47TextOf(ch)
				p, err := url.PathUnescape(rr.Href)
				if err != nil {
					return nil, fmt.Errorf("bad href %q", rr.Href)
				}
				if len(p) > 1 {
					p = strings.TrimSuffix(p, "/")
				}
				rr.Path = p
			case "propstat":
				code := 0
				var props []c47RProp
				for _, ps := range c47ElemKids(ch) {
					if ps.Space != c47DAV {
						return nil, fmt.Errorf("unexpected {%s}%s in propstat", ps.Space, ps.Local)
					}
					switch ps.Local {
					case "status":
						f := strings.Fields(c47TextOf(ps))
						if len(f) < 2 {
							return nil, fmt.Errorf("bad status %q", c47TextOf(ps))
						}
						code, err = strconv.Atoi(f[1])
						if err != nil {
							return nil, fmt.Errorf("bad status %q", c47TextOf(ps))
						}
					case "prop":
						for _, pe := range c47ElemKids(ps) {
							rp := c47RProp{Name: xml.Name{Space: pe.Space, Local: pe.Local}, Kids: pe.Kids}
							for _, a := range pe.Attrs {
								if a.Space == c47XMLNS && a.Local == "lang" {
									rp.Lang, rp.HasLang = a.Value, true
								}
							}
							props = append(props, rp)
						}
					}
				}
				if code == 0 {
					return nil, fmt.Errorf("propstat without status")
				}
				for i := range props {
					props[i].Status = code
				}
				rr.Props = append(rr.Props, props...)
			}
		}
		if rr.Href == "" {
			return nil, fmt.Errorf("response without href")
		}
		out = append(out, rr)
	}
	return out, nil
}

// ---------------------------------------------------------------------------------------
// Generators

// RFC 4918 section 15: the DAV: properties the RFC defines; package webdav documents exactly
// these as its protected (live) names.
var c47LiveLocals = []string{"creationdate", "displayname", "getcontentlanguage", "getcontentlength",
	"getcontenttype", "getetag", "getlastmodified", "lockdiscovery", "resourcetype", "supportedlock"}

func c47IsLive(n xml.Name) bool {
	if n.Space != c47DAV {
		return false
	}
	for _, l := range c47LiveLocals {
		if l == n.Local {
			return true
		}
	}
	return false
}

var c47Spaces = []string{
	"", c47DAV, "http://example.com/ns", "http://example.com/D", "urn:x:y",
	"http://example.com/?a=1&b=2\"'<>", "http://ex.com/ü/日本", "http://example.com/ns/",
	"http://example.com/xmlfoo", "DAV:x", "dav:", "http://example.com/D_1", "a b",
}

var c47Locals = []string{"a", "b", "foo", "prop", "set", "remove", "D", "x.y", "x-y", "_u", "é", "名",
	"getcontentlength", "displayname", "resourcetype", "href", "lang", "multistatus", "status", "owner", "Foo"}

var c47Atoms = []string{"<", ">", "&", `"`, "'", "]]>", "&amp;", "&lt;", "&#60;", "<![CDATA[", "]]", "]", "-->",
	"<!--", "<?pi?>", "</D:prop>", "<D:prop xmlns:D=\"DAV:\">", "\r", "\r\n", "\n", "\t", " ", "  ", "\u00e9", "\u65e5\u672c\u8a9e",
	"\u00a0", "\u2028", "\u0085", "\ufeff", "\U0001F600", "\U0010FFFF", "\ufffd", "\ud7ff", "\ue000", "%s", "\\",
	"a", "Z", "0", "=", ";", "&&", "<<", ">>", "''", `""`, "xmlns:D=\"x\"", "D:", "e\u0301", "\u202e"}

func c47GenText(rng *rand.Rand, maxAtoms int) string {
	n := 1 + rng.IntN(maxAtoms)
	var b strings.Builder
	for i := 0; i < n; i++ {
		b.WriteString(c47Atoms[rng.IntN(len(c47Atoms))])
	}
	return b.String()
}

func c47GenName(rng *rand.Rand) (string, string) {
	return c47Spaces[rng.IntN(len(c47Spaces))], c47Locals[rng.IntN(len(c47Locals))]
}

func c47GenAttrs(rng *rand.Rand) []c47Attr {
	if rng.IntN(2) == 0 {
		return nil
	}
	n := 1 + rng.IntN(3)
	seen := map[string]bool{}
	var out []c47Attr
	for i := 0; i < n; i++ {
		var a c47Attr
		switch rng.IntN(6) {
		case 0:
			a = c47Attr{Space: c47XMLNS, Local: "lang", Value: []string{"en", "de-CH", "", "x-klingon"}[rng.IntN(4)]}
		case 1:
			a = c47Attr{Space: c47XMLNS, Local: "space", Value: []string{"preserve", "default"}[rng.IntN(2)]}
		case 2, 3:
			a = c47Attr{Local: c47Locals[rng.IntN(len(c47Locals))]}
		default:
			a.Space, a.Local = c47GenName(rng)
		}
		if a.Space != c47XMLNS {
			switch rng.IntN(4) {
			case 0:
				a.Value = ""
			case 1:
				a.Value = "v" + strconv.Itoa(rng.IntN(100))
			default:
				a.Value = c47GenText(rng, 5)
			}
		}
		k := a.Space + "\x00" + a.Local
		if seen[k] {
			continue
		}
		seen[k] = true
		out = append(out, a)
	}
	return out
}

func c47GenContent(rng *rand.Rand, depth int, self xml.Name, feat map[string]bool) []*c47Node {
	n := rng.IntN(5)
	var out []*c47Node
	for i := 0; i < n; i++ {
		switch r := rng.IntN(10); {
		case r < 3:
			out = append(out, c47T(c47GenText(rng, 6)))
		case r < 4:
			out = append(out, &c47Node{Kind: c47Comment, Text: " c & <x> " + strconv.Itoa(rng.IntN(10)) + " "})
			feat["comment_or_pi_in_value"] = true
		case r < 5 && rng.IntN(2) == 0:
			out = append(out, &c47Node{Kind: c47PI, Text: "target some=\"data\" " + strconv.Itoa(rng.IntN(10))})
			feat["comment_or_pi_in_value"] = true
		default:
			e := &c47Node{Kind: c47Elem}
			switch rng.IntN(12) {
			case 0:
				e.Space, e.Local = self.Space, self.Local
				feat["nested_same_name_as_property"] = true
			case 1:
				e.Space, e.Local = c47DAV, []string{"prop", "set", "href", "propstat", "multistatus", "response"}[rng.IntN(6)]
				feat["nested_dav_element"] = true
			case 2:
				e.Space, e.Local = "", self.Local
			default:
				e.Space, e.Local = c47GenName(rng)
			}
			e.Attrs = c47GenAttrs(rng)
			if depth < 3 {
				e.Kids = c47GenContent(rng, depth+1, self, feat)
			}
			feat["nested_elements"] = true
			if len(e.Attrs) > 0 {
				feat["nested_attributes"] = true
			}
			out = append(out, e)
		}
	}
	return out
}

// c47GenValue returns the value of a property and the features it exercises.
func c47GenValue(rng *rand.Rand, self xml.Name, thorough bool, feat map[string]bool) []*c47Node {
	switch r := rng.IntN(20); {
	case r == 0:
		feat["empty_value"] = true
		return nil
	case r == 1:
		feat["whitespace_only_value"] = true
		return []*c47Node{c47T([]string{" ", "\n\t ", "  \r\n", "\n", "\t", "\r", "   \n   "}[rng.IntN(7)])}
	case r == 2:
		return []*c47Node{c47T("plain value " + strconv.Itoa(rng.IntN(1000)))}
	case r == 3:
		feat["long_value"] = true
		n := 2000 + rng.IntN(60000)
		if thorough && rng.IntN(40) == 0 {
			n = 200000 + rng.IntN(800000)
		}
		var b strings.Builder
		for b.Len() < n {
			if rng.IntN(4) == 0 {
				b.WriteString(c47GenText(rng, 8))
			} else {
				b.WriteString("lorem ipsum dolor sit amet ")
			}
		}
		return []*c47Node{c47T(b.String())}
	case r < 10:
		feat["hostile_text_value"] = true
		return []*c47Node{c47T(c47GenText(rng, 12))}
	case r == 10:
		// every character that needs escaping, exactly once each, as text
		feat["all_five_escaped_chars"] = true
		return []*c47Node{c47T(`<&>"'`)}
	default:
		v := c47GenContent(rng, 0, self, feat)
		if len(v) == 0 {
			feat["empty_value"] = true
		}
		return v
	}
}

// c47EqualButAdopted reports whether got equals want except that some elements which were in
// no namespace are now in ns (what happens to unprefixed elements spliced under an
// xmlns="ns" declaration).
func c47EqualButAdopted(want, got []*c47Node, ns string) bool {
	w, g := c47Flat(want), c47Flat(got)
	if len(w) != len(g) {
		return false
	}
	adopted := false
	for i := range w {
		if w[i] == g[i] {
			continue
		}
		if strings.HasPrefix(w[i], "E{}") && g[i] == "E{"+ns+"}"+w[i][3:] {
			adopted = true
			continue
		}
		return false
	}
	return adopted
}

func c47HasSameName(kids []*c47Node, self xml.Name) bool {
	for _, k := range kids {
		if k.Kind != c47Elem {
			continue
		}
		if k.Space == self.Space && k.Local == self.Local {
			return true
		}
		if c47HasSameName(k.Kids, self) {
			return true
		}
	}
	return false
}

func c47TextHasEscapable(kids []*c47Node) bool {
	for _, k := range kids {
		switch k.Kind {
		case c47Text:
			if strings.ContainsAny(k.Text, "<&>\"'") {
				return true
			}
		case c47Elem:
			for _, a := range k.Attrs {
				if strings.ContainsAny(a.Value, "<&>\"'") {
					return true
				}
			}
			if c47TextHasEscapable(k.Kids) {
				return true
			}
		}
	}
	return false
}

func c47NonASCII(kids []*c47Node) bool {
	for _, k := range kids {
		switch k.Kind {
		case c47Text:
			for i := 0; i < len(k.Text); i++ {
				if k.Text[i] >= utf8.RuneSelf {
					return true
				}
			}
		case c47Elem:
			if c47NonASCII(k.Kids) {
				return true
			}
		}
	}
	return false
}

// ---------------------------------------------------------------------------------------
// Server-state model

type c47Stored struct {
	Lang      string // language the package documents it keeps (xml:lang on DAV:prop or on the property)
	OuterLang string // language in scope from DAV:set / DAV:propertyupdate when neither of the above is given
	Kids      []*c47Node
	Canon     string
	SetBy     string // request body that set it
}

type c47Model struct {
	props   map[string]map[xml.Name]*c47Stored
	removed map[string]map[xml.Name]bool // removed by a successful PROPPATCH and not set again
}

func (m *c47Model) at(p string) map[xml.Name]*c47Stored {
	if m.props[p] == nil {
		m.props[p] = map[xml.Name]*c47Stored{}
	}
	return m.props[p]
}

type c47PropReq struct {
	Name     xml.Name
	Value    []*c47Node
	ElemLang *string
	Junk     bool // carries an extra, non-lang attribute on the property element
}

type c47Block struct {
	Remove   bool
	Props    []c47PropReq
	PropLang *string
	SetLang  *string
}

type c47Patch struct {
	Blocks     []c47Block
	UpdateLang *string
}

func c47LangAttr(l *string) []c47Attr {
	if l == nil {
		return nil
	}
	return []c47Attr{{Space: c47XMLNS, Local: "lang", Value: *l}}
}

func c47PatchDoc(p *c47Patch) *c47Node {
	root := c47E(c47DAV, "propertyupdate")
	root.Pad = true
	root.Attrs = c47LangAttr(p.UpdateLang)
	for _, b := range p.Blocks {
		local := "set"
		if b.Remove {
			local = "remove"
		}
		sr := c47E(c47DAV, local)
		sr.Pad = true
		sr.Attrs = c47LangAttr(b.SetLang)
		pr := c47E(c47DAV, "prop")
		pr.Pad = true
		pr.Attrs = c47LangAttr(b.PropLang)
		for _, q := range b.Props {
			e := c47E(q.Name.Space, q.Name.Local, q.Value...)
			e.Attrs = c47LangAttr(q.ElemLang)
			if q.Junk {
				e.Attrs = append(e.Attrs, c47Attr{Local: "junk", Value: "ignored & <dropped>"})
			}
			pr.Kids = append(pr.Kids, e)
		}
		sr.Kids = append(sr.Kids, pr)
		root.Kids = append(root.Kids, sr)
	}
	return root
}

func c47OptLang(rng *rand.Rand, oneIn int) *string {
	if rng.IntN(oneIn) != 0 {
		return nil
	}
	l := []string{"en", "de-CH", "fr", "", "x-a&b", "zh-Hant"}[rng.IntN(6)]
	return &l
}

// ---------------------------------------------------------------------------------------
// The run

type c47Step struct {
	Method string `json:"method"`
	Path   string `json:"path"`
	Depth  string `json:"depth,omitempty"`
	Body   string `json:"body"`
	Status int    `json:"status"`
	Resp   string `json:"response,omitempty"`
}

type c47Run struct {
	r      *verifrt.R
	c      *verifrt.Case
	rng    *rand.Rand
	h      *Handler
	model  *c47Model
	paths  []string        // all resources
	isDir  map[string]bool //
	steps  []c47Step
	feat   map[string]bool
	events map[string]int64
}

func c47Cut(s string, n int) string {
	if len(s) > n {
		return s[:n/2] + "…[" + strconv.Itoa(len(s)-n) + " bytes cut]…" + s[len(s)-n/2:]
	}
	return s
}

func (x *c47Run) ev(k string, n int64) { x.events[k] += n }

// c47Reported remembers the keys already reported with full detail in this process: the
// runtime keeps one replay per key, so later hits only need to be counted.
var (
	c47RepMu    sync.Mutex
	c47Reported = map[string]bool{}
)

func (x *c47Run) viol(key, format string, a ...any) {
	x.events["VIOLATION_"+key]++
	c47RepMu.Lock()
	first := !c47Reported[key] || x.r.Replay != nil
	if first {
		c47Reported[key] = true
		x.c.Violation(key, format, a...)
	}
	c47RepMu.Unlock()
	if !first {
		x.c.Violation(key, "(same kind as the first report of this key)")
	}
}

func (x *c47Run) do(method, p, depth, body string) (int, string) {
	hdr := map[string]string{"Content-Type": "application/xml"}
	if depth != "" {
		hdr["Depth"] = depth
	}
	w := vfDo(x.h, method, c47Host, p, hdr, body)
	resp := w.Body.String()
	x.steps = append(x.steps, c47Step{Method: method, Path: p, Depth: depth, Body: c47Cut(body, 3000), Status: w.Code, Resp: c47Cut(resp, 3000)})
	st := x.steps
	if len(st) > 8 {
		st = st[len(st)-8:]
	}
	x.c.Describe(map[string]any{"tree": x.paths, "last_steps": st})
	return w.Code, resp
}

func c47NameStr(n xml.Name) string { return "{" + n.Space + "}" + n.Local }

// genPatch builds a PROPPATCH for resource p. live selects a request that also names a
// protected property (which must make the whole request fail).
func (x *c47Run) genPatch(p string, pool []xml.Name, maxBlocks, maxProps int, live bool, thorough bool) *c47Patch {
	rng := x.rng
	pt := &c47Patch{UpdateLang: c47OptLang(rng, 12)}
	nb := 1 + rng.IntN(maxBlocks)
	have := x.model.at(p)
	for i := 0; i < nb; i++ {
		b := c47Block{Remove: rng.IntN(3) == 0, PropLang: c47OptLang(rng, 6), SetLang: c47OptLang(rng, 12)}
		np := 1 + rng.IntN(maxProps)
		for j := 0; j < np; j++ {
			name := pool[rng.IntN(len(pool))]
			if b.Remove && len(have) > 0 && rng.IntN(3) != 0 {
				// favour removing something that is there
				ks := make([]string, 0, len(have))
				byk := map[string]xml.Name{}
				for n := range have {
					ks = append(ks, c47NameStr(n))
					byk[c47NameStr(n)] = n
				}
				sort.Strings(ks)
				name = byk[ks[rng.IntN(len(ks))]]
			}
			q := c47PropReq{Name: name, ElemLang: c47OptLang(rng, 5), Junk: rng.IntN(15) == 0}
			if !b.Remove {
				q.Value = c47GenValue(rng, name, thorough, x.feat)
			} else if rng.IntN(6) == 0 {
				q.Value = []*c47Node{{Kind: c47Comment, Text: " nothing "}}
			}
			b.Props = append(b.Props, q)
		}
		pt.Blocks = append(pt.Blocks, b)
	}
	if live {
		b := &pt.Blocks[rng.IntN(len(pt.Blocks))]
		q := c47PropReq{Name: xml.Name{Space: c47DAV, Local: c47LiveLocals[rng.IntN(len(c47LiveLocals))]}}
		if !b.Remove {
			q.Value = []*c47Node{c47T("verif-sentinel-" + strconv.Itoa(rng.IntN(1000)))}
		}
		at := rng.IntN(len(b.Props) + 1)
		b.Props = append(b.Props[:at], append([]c47PropReq{q}, b.Props[at:]...)...)
	}
	return pt
}

// applyPatch sends the PROPPATCH and updates the model according to its documented outcome.
func (x *c47Run) applyPatch(p string, pt *c47Patch) (nontrivial bool, sig uint64) {
	body, w := c47Doc(x.rng, c47PatchDoc(pt))
	return x.applyPatchBody(p, pt, body, w)
}

// applyPatchBody is applyPatch for a request whose spelling is already fixed (body must spell
// pt; that is checked).
func (x *c47Run) applyPatchBody(p string, pt *c47Patch, body string, w *c47W) (nontrivial bool, sig uint64) {
	hs := fnv.New64a()
	hasLive, nestedSame := false, false
	for _, b := range pt.Blocks {
		for _, q := range b.Props {
			if c47IsLive(q.Name) {
				hasLive = true
			}
			if c47HasSameName(q.Value, q.Name) {
				nestedSame = true
			}
			fmt.Fprintf(hs, "%v|%s|%s;", b.Remove, c47NameStr(q.Name), c47Canon(q.Value))
		}
	}
	sig = hs.Sum64()
	for k, v := range map[string]bool{"spelled_with_cdata": w.usedCDATA, "spelled_with_char_refs": w.usedCharRef,
		"spelled_with_entities": w.usedEntity, "spelled_shadowing_D_prefix": w.shadowedD,
		"spelled_redeclaring_default_ns": w.redeclDefault, "spelled_with_apos_quoted_attr": w.usedAposQuote,
		"spelled_with_cdata_end_marker_in_attribute_value": w.attrCDEnd} {
		if v {
			x.ev(k, 1)
		}
	}
	// The harness's own reader must agree with the harness's own writer, otherwise the case
	// proves nothing (this is a check of the monitor, not of golang/net).
	if doc, err := c47Parse(body); err != nil {
		panic(fmt.Sprintf("harness bug: generated request does not parse: %v\n%s", err, c47Cut(body, 2000)))
	} else if c47StripPad(doc, 2); false {
	} else if got, want := c47Canon([]*c47Node{doc}), c47Canon([]*c47Node{c47PatchDoc(pt)}); got != want {
		panic(fmt.Sprintf("harness bug: request spelling changes the document\nwant %s\ngot  %s\n%s", c47Cut(want, 1500), c47Cut(got, 1500), c47Cut(body, 2000)))
	}
	code, resp := x.do("PROPPATCH", p, "", body)
	x.ev("proppatch_requests", 1)

	if hasLive {
		x.ev("live_property_patch_attempts", 1)
		// Documented: protected names cannot be overridden or removed and patching is atomic.
		// The model stays as it is; the PROPFIND that follows verifies it.
		if code == 207 {
			rs, err := c47Multistatus(resp)
			if err != nil {
				x.viol("proppatch-response-malformed", "PROPPATCH %s: %v\nrequest:\n%s\nresponse:\n%s", p, err, c47Cut(body, 1500), c47Cut(resp, 1500))
			}
			for _, rr := range rs {
				for _, rp := range rr.Props {
					switch {
					case c47IsLive(rp.Name) && rp.Status == 403:
						x.ev("live_property_propstat_403", 1)
					case c47IsLive(rp.Name):
						x.ev("live_property_propstat_other_status", 1)
					case rp.Status == 424:
						x.ev("dead_property_propstat_424", 1)
					case rp.Status == 200:
						x.ev("dead_property_propstat_200_next_to_live", 1)
					}
				}
			}
		} else {
			x.ev("live_property_patch_non_207", 1)
		}
		return false, sig
	}

	if code == 400 && w.attrCDEnd {
		// Find out whether the refusal is about the spelling: the request was refused as a
		// whole, so the same document may be sent again with "]]>" escaped in attributes.
		body2, _ := c47DocOpt(x.rng, c47PatchDoc(pt), true)
		if code2, resp2 := x.do("PROPPATCH", p, "", body2); code2 != 400 {
			x.viol("proppatch-rejected:cdata-end-marker-in-attribute-value", "well-formed PROPPATCH on %s answered %d %q; the same document with ]]&gt; instead of ]]> inside attribute values is read without complaint (answer %d)\nrequest:\n%s", p, code, strings.TrimSpace(resp), code2, c47Cut(body, 2500))
			body, code, resp = body2, code2, resp2
		}
	}
	if code != 207 && code != 400 && p == "/" {
		// (400 is the answer to a request that could not be read and is judged below like on
		// any other resource.)
		// memFS refuses to open its root for writing, so the handler cannot patch it. Which
		// resources accept dead properties is not what the statement is about: counted, the
		// PROPFIND that follows verifies that nothing was stored.
		x.ev("proppatch_on_root_refused_"+strconv.Itoa(code), 1)
		return false, sig
	}
	if code != 207 {
		key := "proppatch-rejected:other"
		if nestedSame {
			key = "proppatch-rejected:value-nests-element-named-like-property"
		}
		x.viol(key, "well-formed PROPPATCH of dead properties on existing resource %s answered %d %q\nrequest:\n%s", p, code, strings.TrimSpace(resp), c47Cut(body, 2500))
		// The request was refused as a whole: nothing may have changed (verified by the
		// PROPFIND that follows against the unchanged model).
		return false, sig
	}
	rs, err := c47Multistatus(resp)
	if err != nil {
		x.viol("proppatch-response-malformed", "PROPPATCH %s: %v\nrequest:\n%s\nresponse:\n%s", p, err, c47Cut(body, 1500), c47Cut(resp, 1500))
	} else {
		ok200 := map[xml.Name]bool{}
		for _, rr := range rs {
			for _, rp := range rr.Props {
				if rp.Status == 200 {
					ok200[rp.Name] = true
				}
			}
		}
		for _, b := range pt.Blocks {
			for _, q := range b.Props {
				if !ok200[q.Name] {
					x.viol("proppatch-success-not-reported", "PROPPATCH %s: %s is not listed in a 200 propstat\nrequest:\n%s\nresponse:\n%s", p, c47NameStr(q.Name), c47Cut(body, 1500), c47Cut(resp, 1500))
				}
			}
		}
	}
	// RFC 4918 9.2: instructions are processed in document order.
	have := x.model.at(p)
	if x.model.removed[p] == nil {
		x.model.removed[p] = map[xml.Name]bool{}
	}
	for _, b := range pt.Blocks {
		for _, q := range b.Props {
			if b.Remove {
				if _, ok := have[q.Name]; ok {
					nontrivial = true
					x.ev("removes_of_existing_property", 1)
				} else {
					x.ev("removes_of_absent_property", 1)
				}
				delete(have, q.Name)
				x.model.removed[p][q.Name] = true
				continue
			}
			st := &c47Stored{Kids: q.Value, Canon: c47Canon(q.Value), SetBy: body}
			switch {
			case q.ElemLang != nil:
				st.Lang = *q.ElemLang
			case b.PropLang != nil:
				st.Lang = *b.PropLang
			case b.SetLang != nil:
				st.OuterLang = *b.SetLang
			case pt.UpdateLang != nil:
				st.OuterLang = *pt.UpdateLang
			}
			if _, ok := have[q.Name]; ok {
				x.ev("sets_overwriting_existing_property", 1)
			}
			have[q.Name] = st
			delete(x.model.removed[p], q.Name)
			x.ev("properties_set", 1)
			if st.Canon != "" {
				nontrivial = true
			}
			if c47TextHasEscapable(q.Value) {
				x.ev("set_value_needs_escaping", 1)
			}
			if c47NonASCII(q.Value) {
				x.ev("set_value_non_ascii", 1)
			}
			if q.Name.Space == c47DAV {
				x.ev("set_dead_property_in_DAV_namespace", 1)
			}
			if q.Name.Space != c47DAV {
				for _, l := range c47LiveLocals {
					if l == q.Name.Local {
						x.ev("set_live_local_name_in_other_namespace", 1)
					}
				}
			}
			if q.Name.Space == "" {
				x.ev("set_property_without_namespace", 1)
			}
		}
	}
	return nontrivial, sig
}

// verify sends one PROPFIND and compares everything it shows with the model.
func (x *c47Run) verify(target, depth, kind string, names []xml.Name, sentinel bool) {
	var root *c47Node
	switch kind {
	case "prop":
		pr := c47E(c47DAV, "prop")
		pr.Pad = true
		for _, n := range names {
			pr.Kids = append(pr.Kids, c47E(n.Space, n.Local))
		}
		root = c47E(c47DAV, "propfind", pr)
	case "allprop":
		root = c47E(c47DAV, "propfind", c47E(c47DAV, "allprop"))
	case "allprop+include":
		in := c47E(c47DAV, "include")
		in.Pad = true
		for _, n := range names {
			in.Kids = append(in.Kids, c47E(n.Space, n.Local))
		}
		root = c47E(c47DAV, "propfind", c47E(c47DAV, "allprop"), in)
	case "propname":
		root = c47E(c47DAV, "propfind", c47E(c47DAV, "propname"))
	case "empty-body":
	}
	body := ""
	if root != nil {
		root.Pad = true
		body, _ = c47Doc(x.rng, root)
	}
	code, resp := x.do("PROPFIND", target, depth, body)
	x.ev("propfind_requests", 1)
	x.ev("propfind_"+kind, 1)
	if code != 207 {
		x.viol("propfind-rejected", "well-formed PROPFIND (%s, Depth %s) on existing resource %s answered %d %q\nrequest:\n%s", kind, depth, target, code, strings.TrimSpace(resp), c47Cut(body, 2000))
		return
	}
	rs, err := c47Multistatus(resp)
	if err != nil {
		x.viol("propfind-response-malformed", "PROPFIND (%s, Depth %s) %s: response is not a usable multistatus: %v\nresponse:\n%s\nproperties of the resources in the model were set by:\n%s", kind, depth, target, err, c47Cut(resp, 3000), c47Cut(x.settersOf(target, depth), 3000))
		return
	}
	seenPath := map[string]bool{}
	for _, rr := range rs {
		if seenPath[rr.Path] {
			x.viol("propfind-duplicate-response", "two responses for %s", rr.Path)
			continue
		}
		seenPath[rr.Path] = true
		if _, ok := x.isDir[rr.Path]; !ok {
			x.viol("propfind-unknown-href", "response for unknown resource %q (href %q)", rr.Path, rr.Href)
			continue
		}
		x.checkResponse(rr, kind, names, sentinel, depth, resp)
	}
	// every resource in range must be answered
	for _, p := range x.paths {
		inRange := p == target
		switch depth {
		case "1":
			inRange = inRange || (strings.HasPrefix(p, strings.TrimSuffix(target, "/")+"/") && !strings.Contains(strings.TrimPrefix(p, strings.TrimSuffix(target, "/")+"/"), "/"))
		case "infinity", "":
			inRange = inRange || strings.HasPrefix(p, strings.TrimSuffix(target, "/")+"/")
		}
		if inRange && !seenPath[p] {
			x.viol("propfind-resource-missing", "PROPFIND %s Depth %q has no response for %s", target, depth, p)
		}
	}
}

func (x *c47Run) settersOf(target, depth string) string {
	var b strings.Builder
	for _, p := range x.paths {
		if p != target && !(depth != "0" && strings.HasPrefix(p, strings.TrimSuffix(target, "/")+"/")) {
			continue
		}
		for n, st := range x.model.props[p] {
			fmt.Fprintf(&b, "%s %s <= %s\n", p, c47NameStr(n), c47Cut(st.SetBy, 800))
		}
	}
	return b.String()
}

func (x *c47Run) checkResponse(rr c47RResp, kind string, names []xml.Name, sentinel bool, depth, raw string) {
	have := x.model.props[rr.Path]
	removed := x.model.removed[rr.Path]
	got := map[xml.Name]c47RProp{}
	for _, rp := range rr.Props {
		if _, dup := got[rp.Name]; dup {
			x.viol("propfind-duplicate-property", "%s: %s listed twice", rr.Path, c47NameStr(rp.Name))
		}
		got[rp.Name] = rp
	}
	requested := map[xml.Name]bool{}
	for _, n := range names {
		requested[n] = true
	}
	exhaustive := kind != "prop" // allprop / propname / empty body list every dead property

	// 1. what the model holds must be there, with the same value
	for n, st := range have {
		if !exhaustive && !requested[n] {
			continue
		}
		rp, ok := got[n]
		if !ok || rp.Status != 200 {
			st404 := 0
			if ok {
				st404 = rp.Status
			}
			x.viol("set-property-not-returned", "%s: %s was set but PROPFIND (%s) does not return it with 200 (listed=%v status=%d)\nset by:\n%s\nresponse:\n%s",
				rr.Path, c47NameStr(n), kind, ok, st404, c47Cut(st.SetBy, 2000), c47Cut(raw, 2000))
			continue
		}
		x.ev("set_properties_found_again", 1)
		if kind == "propname" {
			continue
		}
		x.ev("values_compared", 1)
		if gc := c47Canon(rp.Kids); gc != st.Canon {
			cls := c47DiffClass(st.Kids, rp.Kids)
			if n.Space != "" && c47EqualButAdopted(st.Kids, rp.Kids, n.Space) {
				// the only difference: elements that were in no namespace came back in
				// the namespace of the property element
				cls = "unqualified-element-adopts-property-namespace"
			}
			x.viol("value-changed:"+cls, "%s: %s came back with different inner XML\nwant %s\ngot  %s\nset by:\n%s\nresponse:\n%s",
				rr.Path, c47NameStr(n), c47Cut(st.Canon, 1500), c47Cut(gc, 1500), c47Cut(st.SetBy, 2500), c47Cut(raw, 2500))
		} else {
			x.ev("values_equal", 1)
			if strings.Contains(st.Canon, "E{") {
				x.ev("values_equal_with_nested_elements", 1)
			}
		}
		// language
		switch {
		case st.Lang != "" || st.OuterLang == "":
			// documented: xml:lang on DAV:prop or on the property element is kept. An empty
			// xml:lang and an absent one both mean "no language".
			x.ev("lang_compared", 1)
			if rp.Lang != st.Lang {
				x.viol("lang-changed", "%s: %s was set with xml:lang %q (on DAV:prop or the property element) and came back with %q (present=%v)\nset by:\n%s\nresponse:\n%s",
					rr.Path, c47NameStr(n), st.Lang, rp.Lang, rp.HasLang, c47Cut(st.SetBy, 2000), c47Cut(raw, 2000))
			} else if st.Lang != "" {
				x.ev("lang_nonempty_equal", 1)
			}
		case rp.Lang == st.OuterLang:
			x.ev("lang_inherited_from_set_or_propertyupdate_kept", 1)
		case rp.Lang == "":
			// In scope per XML, but the package only documents DAV:prop and the property
			// element as sources: reported, not judged.
			x.ev("lang_inherited_from_set_or_propertyupdate_dropped", 1)
		default:
			x.viol("lang-invented", "%s: %s came back with xml:lang %q that no enclosing element carried (outer %q)", rr.Path, c47NameStr(n), rp.Lang, st.OuterLang)
		}
	}
	// 2. nothing else may be there
	for n, rp := range got {
		if _, ok := have[n]; ok {
			continue
		}
		if c47IsLive(n) {
			if rp.Status == 200 {
				x.ev("live_properties_seen", 1)
				if sentinel && strings.Contains(c47Canon(rp.Kids), "verif-sentinel-") {
					x.viol("live-property-overwritten", "%s: protected property %s now returns the value a PROPPATCH tried to set: %s", rr.Path, c47NameStr(n), c47Canon(rp.Kids))
				}
			}
			continue
		}
		if rp.Status == 200 {
			if removed[n] {
				x.viol("removed-property-still-returned", "%s: %s was removed by PROPPATCH but PROPFIND (%s) still returns it: %s\nresponse:\n%s", rr.Path, c47NameStr(n), kind, c47Cut(c47Canon(rp.Kids), 800), c47Cut(raw, 2000))
			} else {
				x.viol("unexpected-dead-property", "%s: PROPFIND (%s) returns %s which was never set on this resource (or whose PROPPATCH failed as a whole): %s\nresponse:\n%s", rr.Path, kind, c47NameStr(n), c47Cut(c47Canon(rp.Kids), 800), c47Cut(raw, 2000))
			}
			continue
		}
		if rp.Status == 404 {
			if removed[n] {
				x.ev("removed_properties_reported_404", 1)
			} else {
				x.ev("never_set_properties_reported_404", 1)
			}
		}
	}
	// 3. removed names that were asked for (or would be listed) are verifiably absent
	for n := range removed {
		if exhaustive || requested[n] {
			if rp, ok := got[n]; !ok || rp.Status != 200 {
				x.ev("removed_properties_verified_absent", 1)
			}
		}
	}
	// 4. explicitly requested names must be answered one way or the other
	if kind == "prop" {
		for n := range requested {
			if _, ok := got[n]; !ok {
				x.viol("requested-property-unanswered", "%s: PROPFIND prop asked for %s and the response does not mention it\nresponse:\n%s", rr.Path, c47NameStr(n), c47Cut(raw, 2000))
			}
		}
	}
}

func (x *c47Run) flush() {
	for k, v := range x.events {
		x.r.Event(k, v)
	}
	for k := range x.feat {
		x.r.Event("value_"+k, 1)
	}
}

func c47NewRun(r *verifrt.R, c *verifrt.Case, tree []string) *c47Run {
	fs := NewMemFS()
	x := &c47Run{r: r, c: c, rng: c.Rng, isDir: map[string]bool{"/": true}, paths: []string{"/"},
		feat: map[string]bool{}, events: map[string]int64{},
		model: &c47Model{props: map[string]map[xml.Name]*c47Stored{}, removed: map[string]map[xml.Name]bool{}}}
	for _, p := range tree {
		if strings.HasSuffix(p, "/") {
			p = strings.TrimSuffix(p, "/")
			if err := fs.Mkdir(vfCtx, p, 0777); err != nil {
				panic("harness: mkdir " + p + ": " + err.Error())
			}
			x.isDir[p] = true
		} else {
			if err := vfWriteFile(fs, p, "content of "+p); err != nil {
				panic("harness: write " + p + ": " + err.Error())
			}
			x.isDir[p] = false
		}
		x.paths = append(x.paths, p)
	}
	x.h = &Handler{FileSystem: fs, LockSystem: NewMemLS()}
	return x
}

func c47Pool(rng *rand.Rand, n int) []xml.Name {
	fixed := []xml.Name{
		{Space: c47DAV, Local: "foo"}, {Space: c47DAV, Local: "owner"}, {Space: c47DAV, Local: "getcontentlength2"},
		{Space: c47DAV, Local: "Getcontentlength"}, {Space: "urn:other", Local: "getcontentlength"},
		{Space: "dav:", Local: "displayname"}, {Space: "", Local: "plain"}, {Space: "", Local: "getetag"},
		{Space: "http://example.com/D", Local: "D"}, {Space: "http://example.com/ns", Local: "prop"},
		{Space: "DAV:x", Local: "resourcetype"},
	}
	seen := map[xml.Name]bool{}
	var out []xml.Name
	for len(out) < n {
		var nm xml.Name
		if rng.IntN(2) == 0 {
			nm = fixed[rng.IntN(len(fixed))]
		} else {
			nm.Space, nm.Local = c47GenName(rng)
		}
		if seen[nm] || c47IsLive(nm) {
			continue
		}
		seen[nm] = true
		out = append(out, nm)
	}
	return out
}

type c47DirectedCase struct {
	Space, Local string
	PropLang     string
	Body         string
	Want         []*c47Node
	AttrCDEnd    bool
}

func c47PU(inner string) string {
	return `<?xml version="1.0" encoding="utf-8"?><d:propertyupdate xmlns:d="DAV:"><d:set><d:prop>` + inner + `</d:prop></d:set></d:propertyupdate>`
}

func c47EA(space, local string, attrs []c47Attr, kids ...*c47Node) *c47Node {
	e := c47E(space, local, kids...)
	e.Attrs = attrs
	return e
}

var c47Directed = []c47DirectedCase{
	{Space: "urn:p", Local: "foo", Body: c47PU(`<p:foo xmlns:p="urn:p"><x>t</x></p:foo>`),
		Want: []*c47Node{c47E("", "x", c47T("t"))}},
	{Space: "urn:p", Local: "foo", Body: c47PU(`<p:foo xmlns:p="urn:p"><p:foo>in</p:foo>out</p:foo>`),
		Want: []*c47Node{c47E("urn:p", "foo", c47T("in")), c47T("out")}},
	{Space: "urn:p", Local: "foo", Body: c47PU(`<p:foo xmlns:p="urn:p"><p:x a="]]>"/></p:foo>`), AttrCDEnd: true,
		Want: []*c47Node{c47EA("urn:p", "x", []c47Attr{{Local: "a", Value: "]]>"}})}},
	{Space: "urn:p", Local: "foo", Body: c47PU(`<p:foo xmlns:p="urn:p">&lt;&amp;&gt;&quot;&apos;</p:foo>`),
		Want: []*c47Node{c47T(`<&>"'`)}},
	{Space: "urn:p", Local: "foo", Body: c47PU(`<p:foo xmlns:p="urn:p">&#60;&#x26;&#62;&#x22;&#39;&amp;lt;</p:foo>`),
		Want: []*c47Node{c47T(`<&>"'&lt;`)}},
	{Space: "urn:p", Local: "foo", Body: c47PU(`<p:foo xmlns:p="urn:p"><![CDATA[<a>&amp;]]]]><![CDATA[>]]></p:foo>`),
		Want: []*c47Node{c47T("<a>&amp;]]>")}},
	{Space: "urn:notdav", Local: "foo", Body: c47PU(`<D:foo xmlns:D="urn:notdav"><D:bar xmlns:D="DAV:" D:k="v"/><D:baz/></D:foo>`),
		Want: []*c47Node{c47EA(c47DAV, "bar", []c47Attr{{Space: c47DAV, Local: "k", Value: "v"}}), c47E("urn:notdav", "baz")}},
	{Space: c47DAV, Local: "mydead", PropLang: "en", Body: `<D:propertyupdate xmlns:D="DAV:"><D:set><D:prop xml:lang="en"><D:mydead>v<D:href>/x</D:href></D:mydead></D:prop></D:set></D:propertyupdate>`,
		Want: []*c47Node{c47T("v"), c47E(c47DAV, "href", c47T("/x"))}},
	{Space: "urn:p", Local: "foo", Body: c47PU("<p:foo xmlns:p=\"urn:p\"> \n\t</p:foo>"),
		Want: []*c47Node{c47T(" \n\t")}},
	{Space: "urn:p", Local: "foo", Body: c47PU(`<p:foo xmlns:p="urn:p"/>`), Want: nil},
	{Space: "urn:other", Local: "getcontentlength", Body: c47PU(`<getcontentlength xmlns="urn:other">x</getcontentlength>`),
		Want: []*c47Node{c47T("x")}},
	{Space: "", Local: "plain", Body: `<propertyupdate xmlns="DAV:"><set><prop><plain xmlns="">v<sub/></plain></prop></set></propertyupdate>`,
		Want: []*c47Node{c47T("v"), c47E("", "sub")}},
	{Space: "http://example.com/D", Local: "D", Body: c47PU(`<D xmlns="http://example.com/D" xmlns:q='http://example.com/?a=1&amp;b="2"'><q:e q:a="&lt;&#9;&#10;'"/>` + "\u00e9\U0010FFFF" + `&#13;</D>`),
		Want: []*c47Node{c47EA(`http://example.com/?a=1&b="2"`, "e", []c47Attr{{Space: `http://example.com/?a=1&b="2"`, Local: "a", Value: "<\t\n'"}}), c47T("\u00e9\U0010FFFF\r")}},
}

func TestVerif_C47(t *testing.T) {
	r := verifrt.Start(t, "C47")
	defer r.Finish()
	r.SetRule("stream single: fresh memFS with one file or collection; one PROPPATCH setting one generated dead property (name from hostile namespace x local-name pools; value = empty / white space / text built from <&>\"' ]]> entity look-alikes, CR/LF/TAB, non-ASCII incl. U+10FFFF / long text / mixed content up to 4 levels with namespaced elements and attributes, xml:lang, comments, PIs, elements named like the property or like DAV: wrappers), spelled with random prefixes (incl. shadowing D and redeclaring the default namespace), entity / decimal / hex references, CDATA, both attribute quotes; then PROPFIND prop, allprop, propname; then PROPPATCH remove; then PROPFIND again. stream history: tree of 2-6 resources, 4-14 PROPPATCH requests of 1-3 set/remove blocks x 1-4 properties from a pool of 5-10 names (so overwrites and removes hit), one in eight also naming a protected DAV: property, each followed by a PROPFIND (prop with present, absent and live names / allprop / allprop+include / propname / empty body, Depth 0, 1 or infinity on the resource or an ancestor) checked against the model for every resource it answers. non-trivial = a non-empty value was set and compared, or an existing property was removed and verified absent; distinct by (set/remove, name, canonical value) list of the PROPPATCH")
	r.Assume("encoding/xml's RawToken lexer (tags, attributes, character/entity references, CDATA) is trusted to read responses; namespace resolution, tree building, canonical form and comparison are the harness's own")
	r.Assume("semantic equality of inner XML = equal trees of expanded element names, attribute sets (expanded name, value) and merged character data; comments and processing instructions inside values are not compared (RFC 4918 lets servers ignore them); attributes other than xml:lang on the property element itself are not part of the inner XML")
	r.Assume("xml:lang is asserted when it is given on DAV:prop or on the property element (what Property.Lang / proppatchProps document); when only DAV:set or DAV:propertyupdate carries it the outcome is counted, not judged")
	thorough := r.Thorough()

	single := func(c *verifrt.Case) {
		rng := c.Rng
		res := []string{"/f.txt", "/col/", "/名 前.txt"}[rng.IntN(3)]
		x := c47NewRun(r, c, []string{res})
		defer x.flush()
		p := strings.TrimSuffix(res, "/")
		if rng.IntN(8) == 0 {
			p = "/"
		}
		name := c47Pool(rng, 1)[0]
		q := c47PropReq{Name: name, Value: c47GenValue(rng, name, thorough, x.feat), ElemLang: c47OptLang(rng, 5)}
		pt := &c47Patch{Blocks: []c47Block{{Props: []c47PropReq{q}, PropLang: c47OptLang(rng, 6), SetLang: c47OptLang(rng, 15)}}, UpdateLang: c47OptLang(rng, 15)}
		nt, sig := x.applyPatch(p, pt)
		if c.Index%500 == 7 && len(x.steps) > 0 {
			defer func() {
				st := x.steps
				if len(st) > 2 {
					st = st[:2]
				}
				r.Sample(map[string]any{"stream": "single", "index": c.Index, "property": c47NameStr(name), "expected_canonical_value": c47Cut(c47Canon(q.Value), 600), "proppatch_then_propfind": st})
			}()
		}
		other := xml.Name{Space: name.Space, Local: name.Local + "x"}
		x.verify(p, "0", "prop", []xml.Name{name, other, {Space: c47DAV, Local: "getcontentlength"}}, false)
		x.verify(p, "0", "allprop", nil, false)
		x.verify(p, "0", "propname", nil, false)
		r.EvalHash(nt, sig)
		if rng.IntN(4) == 0 {
			// overwrite before removing
			q2 := c47PropReq{Name: name, Value: c47GenValue(rng, name, thorough, x.feat)}
			nt, sig = x.applyPatch(p, &c47Patch{Blocks: []c47Block{{Props: []c47PropReq{q2}}}})
			x.verify(p, "0", "prop", []xml.Name{name}, false)
			r.EvalHash(nt, sig)
		}
		rm := &c47Patch{Blocks: []c47Block{{Remove: true, Props: []c47PropReq{{Name: name}}}}}
		nt, sig = x.applyPatch(p, rm)
		x.verify(p, "0", "prop", []xml.Name{name}, false)
		x.verify(p, "0", []string{"allprop", "propname", "empty-body"}[rng.IntN(3)], nil, false)
		r.EvalHash(nt, sig)
	}

	history := func(c *verifrt.Case) {
		rng := c.Rng
		all := []string{"/a.txt", "/col/", "/col/b.txt", "/col/sub/", "/col/sub/名 前.txt", "/z"}
		var tree []string
		for _, p := range all {
			parent := p[:strings.LastIndex(strings.TrimSuffix(p, "/"), "/")+1]
			okParent := parent == "/"
			for _, q := range tree {
				if q == parent {
					okParent = true
				}
			}
			if okParent && (rng.IntN(4) != 0 || len(tree) == 0) {
				tree = append(tree, p)
			}
		}
		x := c47NewRun(r, c, tree)
		defer x.flush()
		pool := c47Pool(rng, 5+rng.IntN(6))
		steps := 4 + rng.IntN(11)
		for s := 0; s < steps; s++ {
			p := x.paths[rng.IntN(len(x.paths))]
			live := rng.IntN(8) == 0
			pt := x.genPatch(p, pool, 3, 4, live, thorough)
			nt, sig := x.applyPatch(p, pt)
			// PROPFIND: on the resource or an ancestor, some kind, some depth
			target, depth := p, []string{"0", "0", "1", "infinity", ""}[rng.IntN(5)]
			if rng.IntN(3) == 0 && p != "/" {
				target = p[:strings.LastIndex(p, "/")]
				if target == "" {
					target = "/"
				}
				depth = []string{"1", "infinity"}[rng.IntN(2)]
			}
			kind := []string{"prop", "prop", "prop", "allprop", "allprop", "allprop+include", "propname", "empty-body"}[rng.IntN(8)]
			var names []xml.Name
			if kind == "prop" || kind == "allprop+include" {
				seen := map[xml.Name]bool{}
				add := func(n xml.Name) {
					if !seen[n] {
						seen[n] = true
						names = append(names, n)
					}
				}
				for _, b := range pt.Blocks {
					for _, q := range b.Props {
						add(q.Name)
					}
				}
				for i := rng.IntN(4); i > 0; i-- {
					add(pool[rng.IntN(len(pool))])
				}
				if rng.IntN(2) == 0 {
					add(xml.Name{Space: c47DAV, Local: c47LiveLocals[rng.IntN(len(c47LiveLocals))]})
				}
				if kind == "allprop+include" {
					// include is for live properties
					names = []xml.Name{{Space: c47DAV, Local: c47LiveLocals[rng.IntN(len(c47LiveLocals))]}}
				}
			}
			x.verify(target, depth, kind, names, live)
			x.ev("propfind_depth_"+map[string]string{"": "absent"}[depth]+depth, 1)
			r.EvalHash(nt, sig)
		}
		// closing sweep over the whole tree
		x.verify("/", "infinity", "allprop", nil, true)
		x.verify("/", "infinity", "propname", nil, true)
		// and remove everything that is left, resource by resource
		for _, p := range x.paths {
			have := x.model.props[p]
			if len(have) == 0 {
				continue
			}
			b := c47Block{Remove: true}
			ks := make([]string, 0, len(have))
			byk := map[string]xml.Name{}
			for n := range have {
				ks = append(ks, c47NameStr(n))
				byk[c47NameStr(n)] = n
			}
			sort.Strings(ks)
			for _, k := range ks {
				b.Props = append(b.Props, c47PropReq{Name: byk[k]})
			}
			nt, sig := x.applyPatch(p, &c47Patch{Blocks: []c47Block{b}})
			r.EvalHash(nt, sig)
		}
		x.verify("/", "infinity", "allprop", nil, true)
	}

	// A few hand-written requests: the smallest spelling of each hostile shape, so that a
	// failure of one of them replays as a three-line document.
	r.Cases("directed", len(c47Directed), func(c *verifrt.Case) {
		d := c47Directed[c.Index]
		x := c47NewRun(r, c, []string{"/f.txt"})
		defer x.flush()
		x.ev("directed_cases", 1)
		name := xml.Name{Space: d.Space, Local: d.Local}
		st := c47PropReq{Name: name, Value: d.Want}
		blk := c47Block{Props: []c47PropReq{st}}
		if d.PropLang != "" {
			l := d.PropLang
			blk.PropLang = &l
		}
		pt := &c47Patch{Blocks: []c47Block{blk}}
		nt, sig := x.applyPatchBody("/f.txt", pt, d.Body, &c47W{attrCDEnd: d.AttrCDEnd})
		x.verify("/f.txt", "0", "prop", []xml.Name{name}, false)
		x.verify("/f.txt", "0", "allprop", nil, false)
		r.EvalHash(nt, sig)
		rm := &c47Patch{Blocks: []c47Block{{Remove: true, Props: []c47PropReq{{Name: name}}}}}
		nt, sig = x.applyPatch("/f.txt", rm)
		x.verify("/f.txt", "0", "prop", []xml.Name{name}, false)
		r.EvalHash(nt, sig)
	})

	r.CasesParallel("single", r.N(2400, 16000), 0, single)
	r.CasesParallel("history", r.N(300, 1600), 0, history)

	for _, code := range []string{"403", "405", "409", "423", "500"} {
		if n := r.EventCount("proppatch_on_root_refused_" + code); n > 0 {
			r.Note("PROPPATCH on the root collection of memFS was answered %s %d times (memFS does not open its root for writing, so Handler cannot patch it); which resources accept dead properties is outside the statement: counted, not judged, and each refusal was followed by a PROPFIND showing that nothing was stored", code, n)
		}
	}
	if n := r.EventCount("lang_inherited_from_set_or_propertyupdate_dropped"); n > 0 {
		r.Note("xml:lang given only on DAV:set / DAV:propertyupdate was not kept %d times (kept %d times); the package documents DAV:prop and the property element as the sources of Property.Lang: counted, not judged", n, r.EventCount("lang_inherited_from_set_or_propertyupdate_kept"))
	}
	r.Require("directed_cases", int64(len(c47Directed)))
	r.Require("proppatch_requests", 4000)
	r.Require("values_compared", 5000)
	r.Require("values_equal_with_nested_elements", 500)
	r.Require("set_value_needs_escaping", 1500)
	r.Require("removes_of_existing_property", 1500)
	r.Require("removed_properties_verified_absent", 5000)
	r.Require("spelled_with_cdata", 1000)
	r.Require("spelled_shadowing_D_prefix", 1000)
	r.Require("spelled_redeclaring_default_ns", 1500)
	r.Require("set_dead_property_in_DAV_namespace", 400)
	r.Require("set_live_local_name_in_other_namespace", 400)
	r.Require("live_property_patch_attempts", 100)
	r.Require("lang_nonempty_equal", 1000)
}
