//go:build verif

package webdav

// Shared helpers of the /verif webdav monitors (C43..C47). Everything is prefixed vf to stay
// clear of the identifiers of the repository's own tests in this package.

import (
	"context"
	"encoding/xml"
	"fmt"
	"io"
	"net/http"
	"net/http/httptest"
	"net/url"
	"os"
	"path"
	"sort"
	"strings"
)

var vfCtx = context.Background()

func vfXMLName(space, local string) xml.Name { return xml.Name{Space: space, Local: local} }

// vfNode is what a snapshot records about one resource.
type vfNode struct {
	Dir     bool
	Content string // file bytes
	Props   string // canonical rendering of the dead properties ("" when none / unsupported)
}

// vfSnap maps a cleaned absolute slash path to the node found there. "/" is always present.
type vfSnap map[string]vfNode

// vfSnapshot walks fs through its public interface only. Errors while walking are returned:
// the monitors treat them as "cannot observe", never as silently-empty.
func vfSnapshot(fs FileSystem) (vfSnap, error) {
	s := vfSnap{}
	err := vfSnapWalk(fs, "/", s, 0)
	return s, err
}

func vfSnapWalk(fs FileSystem, name string, s vfSnap, depth int) error {
	ctx := context.Background()
	f, err := fs.OpenFile(ctx, name, os.O_RDONLY, 0)
	if err != nil {
		return fmt.Errorf("snapshot open %q: %v", name, err)
	}
	defer f.Close()
	fi, err := f.Stat()
	if err != nil {
		return fmt.Errorf("snapshot stat %q: %v", name, err)
	}
	n := vfNode{Dir: fi.IsDir()}
	if h, ok := f.(DeadPropsHolder); ok {
		m, err := h.DeadProps()
		if err != nil {
			return fmt.Errorf("snapshot props %q: %v", name, err)
		}
		n.Props = vfPropsString(m)
	}
	if !n.Dir {
		b, err := io.ReadAll(f)
		if err != nil {
			return fmt.Errorf("snapshot read %q: %v", name, err)
		}
		n.Content = string(b)
		s[name] = n
		return nil
	}
	s[name] = n
	kids, err := f.Readdir(-1)
	if err != nil {
		return fmt.Errorf("snapshot readdir %q: %v", name, err)
	}
	for _, k := range kids {
		if err := vfSnapWalk(fs, path.Join(name, k.Name()), s, depth+1); err != nil {
			return err
		}
	}
	return nil
}

func vfPropsString(m map[xml.Name]Property) string {
	if len(m) == 0 {
		return ""
	}
	var ss []string
	for k, p := range m {
		ss = append(ss, fmt.Sprintf("{%s}%s lang=%q =%q", k.Space, k.Local, p.Lang, p.InnerXML))
	}
	sort.Strings(ss)
	return strings.Join(ss, "\n")
}

// vfUnder reports whether p is root or a descendant of root (both cleaned).
func vfUnder(p, root string) bool {
	if p == root || root == "/" {
		return true
	}
	return strings.HasPrefix(p, root+"/")
}

// vfSubtree returns the nodes of s under root, keyed by the path relative to root ("" for
// root itself, "/x/y" below).
func vfSubtree(s vfSnap, root string) map[string]vfNode {
	out := map[string]vfNode{}
	for p, n := range s {
		if vfUnder(p, root) {
			rel := strings.TrimPrefix(p, root)
			if root == "/" {
				rel = p
				if p == "/" {
					rel = ""
				}
			}
			out[rel] = n
		}
	}
	return out
}

func vfSortedKeys[V any](m map[string]V) []string {
	ks := make([]string, 0, len(m))
	for k := range m {
		ks = append(ks, k)
	}
	sort.Strings(ks)
	return ks
}

// vfDiff describes the first few differences between two node maps ("" when equal).
// withProps selects whether dead properties take part.
func vfDiff(a, b map[string]vfNode, withProps bool) string {
	var d []string
	for _, k := range vfSortedKeys(a) {
		x := a[k]
		y, ok := b[k]
		switch {
		case !ok:
			d = append(d, fmt.Sprintf("%q gone", k))
		case x.Dir != y.Dir:
			d = append(d, fmt.Sprintf("%q kind dir=%v->dir=%v", k, x.Dir, y.Dir))
		case x.Content != y.Content:
			d = append(d, fmt.Sprintf("%q content %q->%q", k, vfShort(x.Content), vfShort(y.Content)))
		case withProps && x.Props != y.Props:
			d = append(d, fmt.Sprintf("%q props %q->%q", k, x.Props, y.Props))
		}
	}
	for _, k := range vfSortedKeys(b) {
		if _, ok := a[k]; !ok {
			d = append(d, fmt.Sprintf("%q new", k))
		}
	}
	if len(d) > 8 {
		d = append(d[:8], fmt.Sprintf("… %d more", len(d)-8))
	}
	return strings.Join(d, "; ")
}

func vfShort(s string) string {
	if len(s) > 24 {
		return s[:24] + "…"
	}
	return s
}

// vfListing renders a snapshot compactly for violation details.
func vfListing(s vfSnap) string {
	var out []string
	for _, p := range vfSortedKeys(s) {
		n := s[p]
		switch {
		case n.Dir:
			out = append(out, p+"/")
		default:
			out = append(out, fmt.Sprintf("%s(%d)", p, len(n.Content)))
		}
	}
	if len(out) > 40 {
		out = append(out[:40], "…")
	}
	return strings.Join(out, " ")
}

// vfDo serves one request straight through Handler.ServeHTTP (no network).
// target is the raw request path (already spelled the way the case wants it).
func vfDo(h *Handler, method, host, rawPath string, hdr map[string]string, body string) *httptest.ResponseRecorder {
	u := &url.URL{Scheme: "http", Host: host, Path: rawPath}
	req := &http.Request{
		Method: method, URL: u, Host: host, Header: http.Header{},
		Proto: "HTTP/1.1", ProtoMajor: 1, ProtoMinor: 1,
		Body: io.NopCloser(strings.NewReader(body)), ContentLength: int64(len(body)),
	}
	for k, v := range hdr {
		req.Header.Set(k, v)
	}
	w := httptest.NewRecorder()
	h.ServeHTTP(w, req)
	return w
}

// vfWriteFile creates (or truncates) a file through the FileSystem interface.
func vfWriteFile(fs FileSystem, name, content string) error {
	f, err := fs.OpenFile(context.Background(), name, os.O_RDWR|os.O_CREATE|os.O_TRUNC, 0666)
	if err != nil {
		return err
	}
	if _, err := f.Write([]byte(content)); err != nil {
		f.Close()
		return err
	}
	return f.Close()
}

// vfRefClean is path.Clean("/"+name) written out from its documentation (split on '/', drop
// empty and "." elements, ".." removes the element before it, never above the root), so that
// the monitors do not use slashClean or path.Clean as their own oracle.
func vfRefClean(name string) string {
	var out []string
	for _, seg := range strings.Split(name, "/") {
		switch seg {
		case "", ".":
		case "..":
			if len(out) > 0 {
				out = out[:len(out)-1]
			}
		default:
			out = append(out, seg)
		}
	}
	return "/" + strings.Join(out, "/")
}
