//go:build verif

package webdav

// C46: COPY never changes its source; MOVE either moves the source intact or leaves it intact.
//
// Monitor shape: HIST over Handler.ServeHTTP called directly. Before and after every COPY/MOVE
// the whole filesystem is snapshotted through the FileSystem interface (kind, bytes, dead
// properties). The oracle is purely outcome based; the only "model" is the reference
// resolution of the Destination header (net/url parsing, prefix strip, path.Clean), which is
// what RFC 3986 equivalence of the spellings means.

import (
	"fmt"
	"math/rand/v2"
	"net/url"
	"os"
	"path"
	"path/filepath"
	"strings"
	"testing"
	"time"

	"golang.org/x/net/internal/verifrt"
)

const c46Host = "dav.example"

type c46Req struct {
	FS        string `json:"fs"`
	Prefix    string `json:"prefix,omitempty"`
	Method    string `json:"method"`
	URLPath   string `json:"url_path"`
	Dest      string `json:"destination"`
	Overwrite string `json:"overwrite"`
	Depth     string `json:"depth"`
	If        string `json:"if,omitempty"`
	Locks     string `json:"locks,omitempty"`
	Src       string `json:"src_clean"`
	Dst       string `json:"dst_clean"`
	Relation  string `json:"relation"`
	Spelling  string `json:"spelling"`
	Before    string `json:"tree_before"`
	After     string `json:"tree_after,omitempty"`
	Status    int    `json:"status"`
}

// c46Resolve is the reference meaning of a Destination header for a handler with the given
// prefix: ok=false when it does not address a resource of this server.
func c46Resolve(dest, prefix string) (clean string, ok bool) {
	if dest == "" {
		return "", false
	}
	u, err := url.Parse(dest)
	if err != nil {
		return "", false
	}
	if u.Host != "" && u.Host != c46Host {
		return "", false
	}
	p := u.Path
	if prefix != "" {
		if !strings.HasPrefix(p, prefix) {
			return "", false
		}
		p = p[len(prefix):]
	}
	if p == "" {
		return "", false
	}
	return path.Clean("/" + p), true
}

func c46Relation(src, dst string, valid bool) string {
	switch {
	case !valid:
		return "invalid"
	case dst == src:
		return "equivalent"
	case vfUnder(src, dst):
		return "ancestor" // destination is a strict ancestor of the source
	case vfUnder(dst, src):
		return "descendant" // destination lies strictly inside the source
	}
	return "unrelated"
}

var c46Names = []string{"a", "b", "c", "d", "sub", "f", "x y", "ü", "a.b", "A"}

func c46Content(rng *rand.Rand) string {
	n := rng.IntN(40)
	b := make([]byte, n)
	for i := range b {
		b[i] = byte('!' + rng.IntN(90))
	}
	return string(b)
}

// c46Build creates a random tree of 1..15 nodes below the root.
func c46Build(rng *rand.Rand, fs FileSystem, props bool) error {
	dirs := []string{"/"}
	n := 1 + rng.IntN(15)
	used := map[string]bool{}
	for i := 0; i < n; i++ {
		parent := dirs[rng.IntN(len(dirs))]
		if rng.IntN(3) == 0 {
			parent = dirs[len(dirs)-1] // favour depth
		}
		name := c46Names[rng.IntN(len(c46Names))]
		p := path.Join(parent, name)
		if used[p] {
			continue
		}
		used[p] = true
		if rng.IntN(5) < 2 {
			if err := fs.Mkdir(vfCtx, p, 0777); err != nil {
				return err
			}
			dirs = append(dirs, p)
		} else if err := vfWriteFile(fs, p, c46Content(rng)); err != nil {
			return err
		}
		if props && rng.IntN(3) == 0 {
			f, err := fs.OpenFile(vfCtx, p, os.O_RDONLY, 0)
			if err != nil {
				return err
			}
			if h, ok := f.(DeadPropsHolder); ok {
				var pp []Property
				for k := 0; k <= rng.IntN(2); k++ {
					pp = append(pp, Property{
						XMLName:  vfXMLName(fmt.Sprintf("urn:verif:%d", rng.IntN(2)), fmt.Sprintf("p%d", rng.IntN(3))),
						InnerXML: []byte(fmt.Sprintf("v%d", rng.IntN(1000))),
					})
				}
				h.Patch([]Proppatch{{Props: pp}})
			}
			f.Close()
		}
	}
	return nil
}

// c46Spell spells the canonical path t in a way that addresses the same resource.
func c46Spell(rng *rand.Rand, t string, allowRelative bool) (string, string) {
	esc := (&url.URL{Path: t}).EscapedPath()
	trimmed := strings.TrimSuffix(esc, "/") // "" for the root
	switch k := rng.IntN(14); k {
	case 0, 1, 2:
		return esc, "plain"
	case 3:
		return trimmed + "/", "trailing-slash"
	case 4:
		return trimmed + "/.", "trailing-dot"
	case 5:
		return trimmed + "//", "trailing-2slash"
	case 6:
		return "/." + esc, "leading-dot"
	case 7:
		return "/" + esc, "leading-2slash"
	case 8:
		return trimmed + "/zz/..", "child-dotdot"
	case 9:
		return "/.." + esc, "leading-dotdot"
	case 10:
		return trimmed + "/%2e", "pct-dot"
	case 11:
		// percent-encode the first byte of the last segment, or a separator
		if i := strings.LastIndex(esc, "/"); i >= 0 && i+1 < len(esc) && esc[i+1] != '%' {
			if rng.IntN(2) == 0 && i > 0 {
				return esc[:i] + "%2F" + esc[i+1:], "pct-slash"
			}
			return esc[:i+1] + fmt.Sprintf("%%%02X", esc[i+1]) + esc[i+2:], "pct-char"
		}
		return esc, "plain"
	case 12:
		if allowRelative && len(esc) > 1 {
			return esc[1:], "relative"
		}
		return trimmed + "/./", "trailing-dot-slash"
	default:
		return strings.ReplaceAll(esc, "/", "//"), "all-2slash"
	}
}

func c46Parent(p string) string {
	if p == "/" {
		return "/"
	}
	return path.Dir(p)
}

type c46Lock struct {
	root  string
	zero  bool
	token string
}

func TestVerif_C46(t *testing.T) {
	r := verifrt.Start(t, "C46")
	defer r.Finish()
	r.SetRule("case = random tree (1-15 nodes, files with random bytes, dead props on memFS) + 1-3 COPY/MOVE requests whose Destination targets the source itself, a descendant, an ancestor, another existing node, a new name or a name with a missing parent, spelled plain / trailing slash / dot segments / doubled slashes / percent-encoded / absolute URL (same, other host) / relative / with query, crossed with Overwrite, Depth, Prefix, locks and If headers; full FS snapshot before and after. non-trivial = source exists and the Destination resolves to a path of this server; distinct by (fs, method, relation, spelling, wrapper, overwrite, depth, lock/if shape, dst existed, src kind, status)")
	r.Assume("Destination equivalence is RFC 3986 path equivalence as computed by net/url + path.Clean in the harness; snapshots are taken through the FileSystem interface (OpenFile/Readdir/Read/DeadProps)")
	r.Assume("a MOVE/COPY whose destination is the source, an ancestor of it or inside it is still bound by the statement: the source may only change where the request legitimately writes (inside a destination that lies inside the source)")

	run := func(fsKind string) func(c *verifrt.Case) {
		return func(c *verifrt.Case) {
			rng := c.Rng
			var fs FileSystem
			if fsKind == "mem" {
				fs = NewMemFS()
			} else {
				root := filepath.Join(r.Out, "c46", fmt.Sprintf("%s_%d", c.Stream, c.Index))
				os.RemoveAll(root)
				if err := os.MkdirAll(root, 0o755); err != nil {
					r.Note("cannot create %s: %v", root, err)
					return
				}
				defer os.RemoveAll(root)
				fs = Dir(root)
			}
			prefix := ""
			if rng.IntN(4) == 0 {
				prefix = "/dav"
			}
			ls := NewMemLS()
			h := &Handler{Prefix: prefix, FileSystem: fs, LockSystem: ls}
			if err := c46Build(rng, fs, fsKind == "mem"); err != nil {
				r.Note("tree build failed: %v", err)
				return
			}
			nreq := 1 + rng.IntN(3)
			for q := 0; q < nreq; q++ {
				before, err := vfSnapshot(fs)
				if err != nil {
					r.Note("snapshot failed: %v", err)
					return
				}
				c46One(r, c, h, ls, fsKind, before)
			}
		}
	}
	r.CasesParallel("mem", r.N(4000, 60000), 0, run("mem"))
	r.CasesParallel("dir", r.N(300, 4000), 0, run("dir"))
	os.RemoveAll(filepath.Join(r.Out, "c46"))

	r.Require("requests", 1000)
	r.Require("relation_equivalent", 100)
	r.Require("relation_ancestor", 30)
	r.Require("relation_descendant", 30)
	r.Require("copy_produced_copy", 100)
	r.Require("move_moved", 100)
	r.Require("source_nodes_compared", 1000)
	r.Require("with_if_header_passed_locks", 10)
}

func c46One(r *verifrt.R, c *verifrt.Case, h *Handler, ls LockSystem, fsKind string, before vfSnap) {
	rng := c.Rng
	fs := h.FileSystem
	prefix := h.Prefix
	paths := vfSortedKeys(before)
	var nonRoot, dirs []string
	for _, p := range paths {
		if p != "/" {
			nonRoot = append(nonRoot, p)
		}
		if before[p].Dir {
			dirs = append(dirs, p)
		}
	}
	newName := func(dir string) string {
		for i := 0; ; i++ {
			p := path.Join(dir, fmt.Sprintf("n%d", rng.IntN(4)+i))
			if _, ok := before[p]; !ok {
				return p
			}
		}
	}

	// source
	src := "/"
	switch k := rng.IntN(100); {
	case k < 90 && len(nonRoot) > 0:
		src = nonRoot[rng.IntN(len(nonRoot))]
	case k < 93:
		src = "/"
	default:
		src = newName(dirs[rng.IntN(len(dirs))])
	}
	_, srcExists := before[src]

	// destination target
	var target string
	switch k := rng.IntN(100); {
	case k < 25:
		target = src
	case k < 35:
		if srcExists && before[src].Dir && rng.IntN(2) == 0 {
			target = newName(src)
		} else {
			var below []string
			for _, p := range paths {
				if p != src && vfUnder(p, src) {
					below = append(below, p)
				}
			}
			if len(below) > 0 {
				target = below[rng.IntN(len(below))]
			} else {
				target = path.Join(src, "n0")
			}
		}
	case k < 45:
		target = c46Parent(src)
		if rng.IntN(4) == 0 {
			target = c46Parent(target)
		}
	case k < 65 && len(nonRoot) > 0:
		target = nonRoot[rng.IntN(len(nonRoot))]
	case k < 93:
		target = newName(dirs[rng.IntN(len(dirs))])
	default:
		target = path.Join(newName(dirs[rng.IntN(len(dirs))]), "deep")
	}

	method := "COPY"
	if rng.IntN(2) == 0 {
		method = "MOVE"
	}
	// spell source and destination
	srcSpelled, srcSp := src, "plain"
	if rng.IntN(7) == 0 {
		s, k := c46Spell(rng, src, false)
		if us, err := url.PathUnescape(s); err == nil { // URL.Path is the decoded form
			srcSpelled, srcSp = us, k
		}
	}
	urlPath := prefix + srcSpelled
	dpath, dsp := c46Spell(rng, target, prefix == "")
	dest := prefix + dpath
	wrapper := "path"
	switch k := rng.IntN(20); {
	case k < 5:
		dest, wrapper = "http://"+c46Host+dest, "abs"
	case k == 5:
		dest, wrapper = "https://"+c46Host+dest, "abs-https"
	case k == 6:
		dest, wrapper = "http://other.example"+dest, "abs-other-host"
	case k == 7 && prefix != "":
		dest, wrapper = dpath, "prefix-missing"
	case k == 8:
		dest, wrapper = dest+"?x=1", "query"
	case k == 9 && rng.IntN(4) == 0:
		dest, wrapper = []string{"", "http://" + c46Host, "%zz", "http://[::1"}[rng.IntN(4)], "garbage"
	}
	hdr := map[string]string{}
	if wrapper != "garbage" || dest != "" {
		hdr["Destination"] = dest
	}
	ow := []string{"", "T", "F", "T", "F", "t"}[rng.IntN(6)]
	if ow != "" {
		hdr["Overwrite"] = ow
	}
	depth := []string{"", "", "infinity", "0", "1", "infinity"}[rng.IntN(6)]
	if depth != "" {
		hdr["Depth"] = depth
	}

	// locks held by "somebody" and the If header presented
	var locks []c46Lock
	lockDesc := ""
	if rng.IntN(100) < 35 {
		for i := 0; i <= rng.IntN(2); i++ {
			root := []string{src, target, c46Parent(src), c46Parent(target), "/"}[rng.IntN(5)]
			zero := rng.IntN(2) == 0
			tok, err := ls.Create(time.Now(), LockDetails{Root: root, Duration: -1, ZeroDepth: zero})
			if err == nil {
				locks = append(locks, c46Lock{root, zero, tok})
				lockDesc += fmt.Sprintf("[%s zero=%v]", root, zero)
			}
		}
	}
	ifShape := "none"
	if len(locks) > 0 && rng.IntN(4) != 0 || rng.IntN(12) == 0 {
		var all []string
		for _, l := range locks {
			all = append(all, "<"+l.token+">")
		}
		switch k := rng.IntN(6); {
		case k < 3 && len(all) > 0:
			hdr["If"], ifShape = "("+strings.Join(all, " ")+")", "all-tokens-one-list"
		case k == 3 && len(all) > 0:
			hdr["If"], ifShape = "("+strings.Join(all, ") (")+")", "one-list-per-token"
		case k == 4 && len(all) > 0:
			tag := "http://" + c46Host + prefix + (&url.URL{Path: locks[0].root}).EscapedPath()
			hdr["If"], ifShape = "<"+tag+"> ("+all[0]+")", "tagged"
		default:
			hdr["If"], ifShape = "(<urn:verif:bogus>)", "bogus-token"
		}
	}

	srcClean := path.Clean("/" + srcSpelled)
	dstClean, valid := c46Resolve(hdr["Destination"], prefix)
	rel := c46Relation(srcClean, dstClean, valid)
	_, dstExisted := before[dstClean]
	desc := &c46Req{FS: fsKind, Prefix: prefix, Method: method, URLPath: urlPath, Dest: hdr["Destination"], Overwrite: ow, Depth: depth,
		If: hdr["If"], Locks: lockDesc, Src: srcClean, Dst: dstClean, Relation: rel, Spelling: srcSp + ">" + dsp + "/" + wrapper, Before: vfListing(before)}
	if fsKind == "dir" && method == "COPY" && rel == "descendant" && depth != "0" && before[src].Dir {
		// Harness limit, not an oracle: an infinite-depth COPY of a collection into its own
		// subtree re-reads the growing directory on the native FS and grows exponentially
		// (observed: 15 nodes -> 319110 entries / 1.3 GB before the recursion limit), the
		// TODO in copyFiles. Resource use is outside C46; on Dir this shape runs with Depth 0.
		depth, desc.Depth = "0", "0"
		hdr["Depth"] = "0"
		r.Event("dir_fs_recursive_copy_forced_depth0", 1)
	}
	c.Describe(desc)
	if srcClean != src {
		r.Note("harness: source spelling %q does not clean to %q", srcSpelled, src)
		return
	}

	w := vfDo(h, method, c46Host, urlPath, hdr, "")
	status := w.Code
	desc.Status = status
	after, err := vfSnapshot(fs)
	// release the locks of this request so that later requests of the case start clean
	for _, l := range locks {
		ls.Unlock(time.Now(), l.token)
	}
	if err != nil {
		// The tree can no longer be walked through the interface (e.g. a path grew past
		// PATH_MAX after a COPY into the own subtree on the native FS): cannot observe.
		r.Event("snapshot_after_failed", 1)
		return
	}
	desc.After = vfListing(after)
	ok2xx := status >= 200 && status < 300

	r.Event("requests", 1)
	r.Event("method_"+method, 1)
	r.Event("fs_"+fsKind, 1)
	r.Event("relation_"+rel, 1)
	r.Event(fmt.Sprintf("status_%d", status), 1)
	if dsp != "plain" || srcSp != "plain" {
		r.Event("unclean_spellings", 1)
	}
	if hdr["If"] != "" && status != 412 && status != 423 && status != 400 {
		r.Event("with_if_header_passed_locks", 1)
	}
	r.Eval(srcExists && valid, fsKind, method, rel, srcSp, dsp, wrapper, ow, depth, ifShape, len(locks), dstExisted, before[src].Dir, status)
	if srcExists && valid {
		r.Sample(desc)
	}
	detail := func() string {
		return fmt.Sprintf("%s %s (fs=%s prefix=%q) Destination: %q Overwrite: %q Depth: %q If: %q locks: %s => status %d\n src=%s dst=%s relation=%s\n before: %s\n after:  %s",
			method, urlPath, fsKind, prefix, hdr["Destination"], ow, depth, hdr["If"], lockDesc, status, srcClean, dstClean, rel, desc.Before, desc.After)
	}

	if !srcExists {
		r.Event("source_missing", 1)
		if ok2xx {
			// Not demanded by the statement (there is no source to destroy): recorded only.
			r.Event("missing_source_answered_2xx", 1)
			r.Note("observation (not a C46 violation): %s of a missing source answered %d: %s %s Destination %q If %q", method, status, method, urlPath, hdr["Destination"], hdr["If"])
		}
		if d := vfDiff(before, after, true); d != "" && !valid {
			c.Violation(strings.ToLower(method)+"-missing-source-invalid-destination-changes-tree", "%s\n diff: %s", detail(), d)
		}
		return
	}

	srcBefore := vfSubtree(before, src)
	r.Event("source_nodes_compared", int64(len(srcBefore)))

	if method == "COPY" {
		// Source nodes that the request may legitimately write: only those inside a
		// destination that lies strictly inside the source.
		exempt := func(p string) bool { return rel == "descendant" && vfUnder(p, dstClean) }
		a, b := map[string]vfNode{}, map[string]vfNode{}
		for p, n := range before {
			if vfUnder(p, src) && !exempt(p) {
				a[p] = n
			}
		}
		for p, n := range after {
			if vfUnder(p, src) && !exempt(p) {
				b[p] = n
			}
		}
		if d := vfDiff(a, b, true); d != "" {
			key := map[string]string{
				"equivalent": "copy-onto-equivalent-path-destroys-source",
				"ancestor":   "copy-onto-ancestor-destroys-source",
				"descendant": "copy-into-descendant-changes-source",
				"unrelated":  "copy-changes-source",
				"invalid":    "copy-invalid-destination-changes-source",
			}[rel]
			c.Violation(key, "%s\n source diff: %s", detail(), d)
			r.Event("viol_"+key+"_"+fsKind, 1)
		} else if rel == "equivalent" || rel == "invalid" {
			if d := vfDiff(before, after, true); d != "" {
				c.Violation("copy-"+rel+"-destination-changes-tree", "%s\n diff: %s", detail(), d)
			}
		}
		if ok2xx && rel == "unrelated" {
			r.Event("copy_produced_copy", 1)
			got := vfSubtree(after, dstClean)
			if depth == "0" && before[src].Dir {
				if n, ok := got[""]; !ok || !n.Dir || len(got) != 1 {
					c.Violation("copy-2xx-without-copy", "%s\n depth-0 copy of a collection: destination holds %v", detail(), vfSortedKeys(got))
				}
			} else if d := vfDiff(srcBefore, got, false); d != "" {
				c.Violation("copy-2xx-without-copy", "%s\n destination differs from source: %s", detail(), d)
			}
		}
		return
	}

	// MOVE
	srcAfter := vfSubtree(after, src)
	intact := vfDiff(srcBefore, srcAfter, true) == ""
	moved := false
	if valid && rel != "equivalent" && rel != "descendant" {
		moved = vfDiff(srcBefore, vfSubtree(after, dstClean), true) == ""
		if moved {
			for rp := range srcBefore {
				p := path.Clean(src + rp)
				if !vfUnder(p, dstClean) {
					if _, still := after[p]; still {
						moved = false
					}
				}
			}
		}
	}
	switch {
	case moved:
		r.Event("move_moved", 1)
		if !ok2xx {
			c.Violation("move-moved-but-error-status", "%s", detail())
		}
	case intact:
		r.Event("move_left_intact", 1)
		if ok2xx {
			c.Violation("move-2xx-without-move", "%s", detail())
		}
		if rel == "equivalent" || rel == "invalid" {
			if d := vfDiff(before, after, true); d != "" {
				c.Violation("move-"+rel+"-destination-changes-tree", "%s\n diff: %s", detail(), d)
			}
		}
	default:
		key := map[string]string{
			"equivalent": "move-onto-equivalent-path-destroys-source",
			"ancestor":   "move-onto-ancestor-destroys-source",
			"descendant": "move-into-descendant-damages-source",
			"unrelated":  "move-loses-source",
			"invalid":    "move-invalid-destination-changes-source",
		}[rel]
		c.Violation(key, "%s\n source diff: %s\n destination vs source: %s", detail(), vfDiff(srcBefore, srcAfter, true), vfDiff(srcBefore, vfSubtree(after, dstClean), true))
		r.Event("viol_"+key+"_"+fsKind, 1)
	}
}
