//go:build verif

package webdav

// C44: NewMemFS agrees with the native filesystem (Dir over a fresh directory) on success vs
// failure of every operation and on the resulting names, kinds and contents.
//
// Monitor shape: HIST, differential. One PRNG history of FileSystem/File calls is applied to
// both; after every call the outcomes are compared, every few calls and at the end the whole
// trees. The native side (package os on this machine) is the reference.
//
// Three quarters of the histories are "clean": the generator looks at the native tree and
// avoids the op shapes on which a divergence is already known (listed in c44Risky), so that
// a history can run to its end and everything else stays checked. One quarter are "probing":
// those shapes are generated too; the first divergence ends the history, because from then
// on the two trees may legitimately differ. The one exception is memFS opening an existing
// directory for writing (native refuses): nothing changed on either side, the handle is
// dropped and the history goes on.
//
// Triage of the divergences found on the pinned tree (all genuine: the native outcome is what
// package os documents or does on every platform, not a Linux peculiarity):
//   - Rename(x, x) of a missing name / of the root returns nil   (repair: rename-onto-itself.diff)
//   - RemoveAll below a missing directory fails                  (os.RemoveAll: "If the path does
//     not exist, RemoveAll returns nil"; repair: removeall-missing-parent.diff)
//   - Read through O_WRONLY / Write through O_RDONLY handles work (handle-access-mode.diff)
//   - a zero-length Write after a Seek past the end extends the file (empty-write-past-eof.diff)
//   - O_APPEND and O_SYNC are refused with "invalid argument"    (open-append-sync.diff)
//   - a directory other than the root can be opened for writing: not repairable inside memFS,
//     the package's own PROPPATCH code opens collections with O_RDWR (known finding).
//
// Shapes never generated (the native outcome is OS specific or unspecified, so the contract
// "same semantics as package os" promises nothing that could be compared):
//   - O_TRUNC together with O_RDONLY (POSIX: unspecified; Linux truncates);
//   - O_CREATE without write access on an existing directory (Linux: EISDIR, others: opens);
//   - O_EXCL without O_CREATE (open(2): undefined);
//   - whence values other than 0,1,2 (3/4 are SEEK_DATA/SEEK_HOLE on Linux);
//   - Seek and positive-count partial Readdir mixes on directory handles, use after Close,
//     zero-length Read (os returns 0,nil at EOF, an io.Reader may also return EOF);
//   - names in un-clean spellings (C45 covers Dir's cleaning; FileInfo.Name of an un-clean
//     name is spelled differently by os itself).
// Renaming over an existing entry is generated, its outcome is not compared (the FileSystem
// documentation calls it OS dependent) and it ends the history.

import (
	"bytes"
	"fmt"
	"io"
	"math/rand/v2"
	"os"
	"path"
	"path/filepath"
	"sort"
	"strings"
	"testing"

	"golang.org/x/net/internal/verifrt"
)

var c44Pool = []string{"/a", "/b", "/c", "/a/x", "/a/y", "/a/x/p", "/a/x/q", "/b/x", "/b/z", "/c/w", "/a/x/p/deep", "/"}

// c44Risky: op shapes with a known memFS/native divergence (see the report / known findings).
// Clean histories avoid them, probing histories generate them.
var c44Risky = map[string]bool{
	"open dir-for-writing":           true, // memFS opens directories for writing
	"open root-for-writing":          false,
	"open append":                    false, // memFS rejects O_APPEND (repaired; generated in every history)
	"open sync":                      false, // memFS rejects O_SYNC (repaired; generated in every history)
	"read wronly-handle":             false, // memFS reads through an O_WRONLY handle (repaired; generated in every history)
	"write rdonly-handle":            false, // memFS writes through an O_RDONLY handle (repaired; generated in every history)
	"removeall parent-missing":       false, // memFS fails, os.RemoveAll returns nil (repaired; generated in every history)
	"rename nonexistent-onto-itself": false, // memFS returns nil for a name that does not exist (repaired; generated in every history)
	"rename root-onto-itself":        false, // memFS returns nil, Dir refuses (repaired; generated in every history)
	"write empty-write-past-eof":     false, // memFS extends the file on a zero-length write (repaired; generated in every history)
}

type c44Handle struct {
	m, n  File
	name  string
	flag  int
	isDir bool
}

type c44Run struct {
	r      *verifrt.R
	c      *verifrt.Case
	rng    *rand.Rand
	mem    FileSystem
	nat    FileSystem
	root   string
	probe  bool
	hs     []*c44Handle
	log    []string
	nops   int
	ended  string
	sig    uint64
	sawDiv bool
}

func c44OK(err error) string {
	if err == nil {
		return "ok"
	}
	return "fail"
}

func c44Class(err error) string {
	switch {
	case err == nil:
		return "nil"
	case err == io.EOF:
		return "EOF"
	case os.IsNotExist(err):
		return "notexist"
	case os.IsExist(err):
		return "exist"
	case os.IsPermission(err):
		return "perm"
	}
	return "other"
}

// kind classifies a clean name by looking at the native tree.
func (x *c44Run) kind(name string) string {
	name = path.Clean("/" + name)
	if name == "/" {
		return "root"
	}
	segs := strings.Split(name[1:], "/")
	p := x.root
	for i, s := range segs {
		p = filepath.Join(p, s)
		fi, err := os.Lstat(p)
		last := i == len(segs)-1
		switch {
		case err != nil && last:
			return "missing"
		case err != nil:
			return "parent-missing"
		case !last && !fi.IsDir():
			return "parent-is-file"
		case last && fi.IsDir():
			return "dir"
		case last:
			return "file"
		}
	}
	return "missing"
}

func (x *c44Run) record(f string, a ...any) {
	s := fmt.Sprintf(f, a...)
	for i := 0; i < len(s); i++ {
		x.sig = (x.sig ^ uint64(s[i])) * 1099511628211
	}
	x.log = append(x.log, s)
	if len(x.log) > 40 {
		x.log = x.log[1:]
	}
}

func (x *c44Run) fail(key, f string, a ...any) {
	x.c.Describe(map[string]any{"probing": x.probe, "last_ops": x.log})
	x.c.Violation(key, "%s\nhistory (last %d ops, probing=%v):\n  %s", fmt.Sprintf(f, a...), len(x.log), x.probe, strings.Join(x.log, "\n  "))
	x.ended = key
	x.sawDiv = true
}

// same compares success/failure of one op on both sides.
func (x *c44Run) same(op, shape string, mErr, nErr error) bool {
	if (mErr == nil) == (nErr == nil) {
		if mErr != nil && c44Class(mErr) != c44Class(nErr) {
			x.r.Event("both_fail_error_class_differs", 1) // logged, not compared (statement: success vs failure)
		}
		return true
	}
	key := fmt.Sprintf("%s-%s-mem-%s-native-%s", op, shape, c44OK(mErr), c44OK(nErr))
	x.fail(key, "%s (%s): memFS error = %v, native error = %v", op, shape, mErr, nErr)
	x.r.Event("div_"+key, 1)
	return false
}

func (x *c44Run) pickName() string { return c44Pool[x.rng.IntN(len(c44Pool))] }

// respell: one time in four, another spelling of the same name (both implementations clean
// names lexically: no leading slash, doubled slashes, "." segments, a ".." detour through a
// name that need not exist, a trailing slash).
func (x *c44Run) respell(name string) string {
	if x.rng.IntN(4) != 0 || name == "/" {
		return name
	}
	x.r.Event("names_spelled_non_canonically", 1)
	switch x.rng.IntN(6) {
	case 0:
		return name[1:]
	case 1:
		return "/" + name
	case 2:
		return "/." + name
	case 3:
		return "/u/.." + name
	case 4:
		i := strings.LastIndex(name, "/")
		return name[:i] + "/." + name[i:]
	default:
		return name + "/"
	}
}

func c44FlagString(flag int) string {
	s := []string{"O_RDONLY", "O_WRONLY", "O_RDWR"}[flag&3]
	for _, f := range []struct {
		b int
		n string
	}{{os.O_CREATE, "CREATE"}, {os.O_EXCL, "EXCL"}, {os.O_TRUNC, "TRUNC"}, {os.O_APPEND, "APPEND"}, {os.O_SYNC, "SYNC"}} {
		if flag&f.b != 0 {
			s += "|" + f.n
		}
	}
	return s
}

func c44OpenShape(kind string, flag int) string {
	w := flag&(os.O_WRONLY|os.O_RDWR) != 0
	switch {
	case w && kind == "dir":
		return "dir-for-writing"
	case w && kind == "root":
		return "root-for-writing"
	case flag&os.O_APPEND != 0 && kind != "root":
		return "append"
	case flag&os.O_SYNC != 0 && kind != "root":
		return "sync"
	}
	s := kind + "-r"
	if w {
		s = kind + "-w"
	}
	if flag&os.O_CREATE != 0 {
		s += "c"
		if flag&os.O_EXCL != 0 {
			s += "x"
		}
	}
	if flag&os.O_TRUNC != 0 {
		s += "t"
	}
	return s
}

func (x *c44Run) allowed(opShape string) bool {
	return x.probe || !c44Risky[opShape]
}

func (x *c44Run) opOpen() {
	rng := x.rng
	var name, kind, shape string
	var flag int
	for try := 0; ; try++ {
		name = x.pickName()
		kind = x.kind(name)
		flag = []int{os.O_RDONLY, os.O_WRONLY, os.O_RDWR, os.O_RDWR}[rng.IntN(4)]
		if rng.IntN(2) == 0 {
			flag |= os.O_CREATE
			if rng.IntN(4) == 0 {
				flag |= os.O_EXCL
			}
		}
		if rng.IntN(4) == 0 {
			flag |= os.O_TRUNC
		}
		if rng.IntN(12) == 0 {
			flag |= os.O_APPEND
		}
		if rng.IntN(40) == 0 {
			flag |= os.O_SYNC
		}
		// never generated (see the header)
		if flag&os.O_TRUNC != 0 && flag&3 == os.O_RDONLY {
			flag &^= os.O_TRUNC
		}
		if flag&os.O_CREATE != 0 && flag&3 == os.O_RDONLY && (kind == "dir" || kind == "root") {
			flag &^= os.O_CREATE | os.O_EXCL
		}
		shape = c44OpenShape(kind, flag)
		if x.allowed("open "+shape) || try > 20 {
			if !x.allowed("open " + shape) {
				return
			}
			break
		}
	}
	mf, mErr := x.mem.OpenFile(vfCtx, name, flag, 0666)
	nf, nErr := x.nat.OpenFile(vfCtx, name, flag, 0666)
	x.record("OpenFile(%s, %s) [%s] mem=%s native=%s", name, c44FlagString(flag), shape, c44Class(mErr), c44Class(nErr))
	x.r.Event("op_open", 1)
	if !x.same("open", shape, mErr, nErr) {
		if mf != nil {
			mf.Close()
		}
		if nf != nil {
			nf.Close()
		}
		if shape == "dir-for-writing" && mErr == nil && nErr != nil {
			// memFS handed out a handle on an existing directory and native refused: neither
			// tree changed (O_CREATE / O_TRUNC do nothing to an existing directory in memFS,
			// the final tree comparison would tell otherwise), the handle is dropped and the
			// history goes on, so everything after this op shape stays checked.
			x.ended = ""
			x.r.Event("continued_after_open_dir_for_writing", 1)
		}
		return
	}
	if mErr != nil {
		return
	}
	mfi, e1 := mf.Stat()
	nfi, e2 := nf.Stat()
	if e1 != nil || e2 != nil || mfi.IsDir() != nfi.IsDir() {
		x.fail("open-kind-differs", "OpenFile(%s): handle Stat mem=(%v,%v) native=(%v,%v)", name, mfi, e1, nfi, e2)
		mf.Close()
		nf.Close()
		return
	}
	h := &c44Handle{m: mf, n: nf, name: name, flag: flag, isDir: nfi.IsDir()}
	if len(x.hs) >= 6 {
		x.closeHandle(rng.IntN(len(x.hs)))
	}
	x.hs = append(x.hs, h)
}

func (x *c44Run) closeHandle(i int) {
	h := x.hs[i]
	x.hs = append(x.hs[:i], x.hs[i+1:]...)
	mErr, nErr := h.m.Close(), h.n.Close()
	x.record("Close(%s)", h.name)
	x.same("close", "handle", mErr, nErr)
}

func (x *c44Run) fileHandle(want func(h *c44Handle) bool) *c44Handle {
	var c []*c44Handle
	for _, h := range x.hs {
		if want(h) {
			c = append(c, h)
		}
	}
	if len(c) == 0 {
		return nil
	}
	return c[x.rng.IntN(len(c))]
}

func c44Access(flag int) string {
	return []string{"rdonly", "wronly", "rdwr", "rdwr"}[flag&3]
}

func (x *c44Run) opWrite() {
	h := x.fileHandle(func(h *c44Handle) bool {
		return !h.isDir && x.allowed("write "+c44Access(h.flag)+"-handle")
	})
	if h == nil {
		return
	}
	n := []int{0, 1, 7, 100, 1000, 4096, 10240}[x.rng.IntN(7)]
	if x.rng.IntN(2) == 0 {
		n = x.rng.IntN(10241)
	}
	data := make([]byte, n)
	for i := range data {
		data[i] = byte(x.rng.Uint32())
	}
	// where does the write land? (native handle is the reference: position and size)
	where := "unknown-position"
	if pos, err := h.n.Seek(0, io.SeekCurrent); err == nil {
		if fi, err := h.n.Stat(); err == nil {
			switch {
			case pos > fi.Size() && n == 0:
				where = "empty-write-past-eof"
			case n == 0:
				where = "empty-write"
			case h.flag&os.O_APPEND != 0:
				where = "append-write" // lands at the end of the file wherever the position is
			case pos > fi.Size():
				where = "write-past-eof"
			case pos == fi.Size():
				where = "write-at-eof"
			default:
				where = "write-inside"
			}
		}
	}
	if !x.allowed("write " + where) {
		n, where = 1, "write-past-eof"
		data = []byte{byte(x.rng.Uint32())}
	}
	shape := c44Access(h.flag) + "-handle"
	mn, mErr := h.m.Write(data)
	nn, nErr := h.n.Write(data)
	x.record("Write(%s, %d bytes) [%s %s] mem=(%d,%s) native=(%d,%s)", h.name, n, shape, where, mn, c44Class(mErr), nn, c44Class(nErr))
	x.r.Event("op_write", 1)
	x.r.Event("write_"+where, 1)
	if !x.same("write", shape, mErr, nErr) {
		return
	}
	if mErr != nil {
		return
	}
	if mn != nn {
		x.fail("write-count-differs", "Write(%s, %d bytes): mem n=%d native n=%d", h.name, n, mn, nn)
		return
	}
	mfi, e1 := h.m.Stat()
	nfi, e2 := h.n.Stat()
	if e1 == nil && e2 == nil && mfi.Size() != nfi.Size() {
		x.fail("write-size-differs-"+where, "after Write(%s, %d bytes) [%s]: mem size=%d native size=%d", h.name, n, where, mfi.Size(), nfi.Size())
		x.r.Event("div_write-size-differs-"+where, 1)
	}
}

func (x *c44Run) opRead() {
	h := x.fileHandle(func(h *c44Handle) bool {
		return x.allowed("read " + c44Access(h.flag) + "-handle")
	})
	if h == nil {
		return
	}
	n := 1 + []int{0, 9, 99, 4095, 12000}[x.rng.IntN(5)]
	if x.rng.IntN(2) == 0 {
		n = 1 + x.rng.IntN(6000)
	}
	shape := c44Access(h.flag) + "-handle"
	if h.isDir {
		shape = "dir-handle"
	}
	mb, nb := make([]byte, n), make([]byte, n)
	mn, mErr := h.m.Read(mb)
	nn, nErr := h.n.Read(nb)
	x.record("Read(%s, %d) [%s] mem=(%d,%s) native=(%d,%s)", h.name, n, shape, mn, c44Class(mErr), nn, c44Class(nErr))
	x.r.Event("op_read", 1)
	// EOF is not a failure; first success vs failure, then data vs EOF
	mE, nE := mErr, nErr
	if mE == io.EOF {
		mE = nil
	}
	if nE == io.EOF {
		nE = nil
	}
	if !x.same("read", shape, mE, nE) {
		return
	}
	if (mErr == io.EOF) != (nErr == io.EOF) {
		x.fail("read-eof-differs-"+shape, "Read(%s,%d): mem=(%d,%v) native=(%d,%v)", h.name, n, mn, mErr, nn, nErr)
		return
	}
	if mErr == nil || mErr == io.EOF {
		if mn != nn || !bytes.Equal(mb[:mn], nb[:nn]) {
			x.fail("read-data-differs", "Read(%s,%d): mem n=%d native n=%d, first difference at %d", h.name, n, mn, nn, c44FirstDiff(mb[:mn], nb[:nn]))
			return
		}
		if mn > 0 {
			x.r.Event("bytes_read_compared", int64(mn))
		}
	}
}

func c44FirstDiff(a, b []byte) int {
	for i := 0; i < len(a) && i < len(b); i++ {
		if a[i] != b[i] {
			return i
		}
	}
	return min(len(a), len(b))
}

func (x *c44Run) opSeek() {
	h := x.fileHandle(func(h *c44Handle) bool { return !h.isDir })
	if h == nil {
		return
	}
	var size int64
	if fi, err := h.n.Stat(); err == nil {
		size = fi.Size()
	}
	whence := x.rng.IntN(3)
	var off int64
	switch whence {
	case io.SeekStart:
		off = x.rng.Int64N(size+2003) - 2
	case io.SeekCurrent:
		off = x.rng.Int64N(6001) - 3000
	default:
		off = x.rng.Int64N(size+2003) - size - 2
	}
	if x.rng.IntN(6) == 0 {
		off = []int64{0, -1, 1, size, -size, size + 1, -size - 1}[x.rng.IntN(7)]
	}
	mp, mErr := h.m.Seek(off, whence)
	np, nErr := h.n.Seek(off, whence)
	shape := fmt.Sprintf("whence%d", whence)
	x.record("Seek(%s, %d, %d) mem=(%d,%s) native=(%d,%s)", h.name, off, whence, mp, c44Class(mErr), np, c44Class(nErr))
	x.r.Event("op_seek", 1)
	if !x.same("seek", shape, mErr, nErr) {
		return
	}
	if mErr == nil && mp != np {
		x.fail("seek-offset-differs-"+shape, "Seek(%s,%d,%d): mem %d native %d (size %d)", h.name, off, whence, mp, np, size)
	}
}

func (x *c44Run) cmpInfo(what, name string, mfi, nfi os.FileInfo) bool {
	if mfi.IsDir() != nfi.IsDir() {
		x.fail(what+"-kind-differs", "%s(%s): mem IsDir=%v native IsDir=%v", what, name, mfi.IsDir(), nfi.IsDir())
		return false
	}
	if !nfi.IsDir() && mfi.Size() != nfi.Size() {
		x.fail(what+"-size-differs", "%s(%s): mem size=%d native size=%d", what, name, mfi.Size(), nfi.Size())
		return false
	}
	if path.Clean("/"+name) != "/" && mfi.Name() != nfi.Name() { // the root's own name is exempt
		x.fail(what+"-name-differs", "%s(%s): mem Name=%q native Name=%q", what, name, mfi.Name(), nfi.Name())
		return false
	}
	if mfi.Mode().IsRegular() != nfi.Mode().IsRegular() {
		x.fail(what+"-kind-differs", "%s(%s): mem mode=%v native mode=%v", what, name, mfi.Mode(), nfi.Mode())
		return false
	}
	return true
}

func (x *c44Run) opStat() {
	if len(x.hs) > 0 && x.rng.IntN(3) == 0 {
		h := x.hs[x.rng.IntN(len(x.hs))]
		mfi, mErr := h.m.Stat()
		nfi, nErr := h.n.Stat()
		x.record("handle.Stat(%s) mem=%s native=%s", h.name, c44Class(mErr), c44Class(nErr))
		x.r.Event("op_stat", 1)
		if x.same("hstat", "handle", mErr, nErr) && mErr == nil {
			x.cmpInfo("hstat", h.name, mfi, nfi)
		}
		return
	}
	name := x.pickName()
	kind := x.kind(name)
	mfi, mErr := x.mem.Stat(vfCtx, name)
	nfi, nErr := x.nat.Stat(vfCtx, name)
	x.record("Stat(%s) [%s] mem=%s native=%s", name, kind, c44Class(mErr), c44Class(nErr))
	x.r.Event("op_stat", 1)
	if x.same("stat", kind, mErr, nErr) && mErr == nil {
		x.cmpInfo("stat", name, mfi, nfi)
	}
}

func c44Entries(fis []os.FileInfo) []string {
	var s []string
	for _, fi := range fis {
		e := fi.Name()
		if fi.IsDir() {
			e += "/"
		} else {
			e += fmt.Sprintf("(%d)", fi.Size())
		}
		s = append(s, e)
	}
	sort.Strings(s)
	return s
}

func (x *c44Run) opReaddir() {
	name := x.pickName()
	kind := x.kind(name)
	mf, mErr := x.mem.OpenFile(vfCtx, name, os.O_RDONLY, 0)
	nf, nErr := x.nat.OpenFile(vfCtx, name, os.O_RDONLY, 0)
	if mf != nil {
		defer mf.Close()
	}
	if nf != nil {
		defer nf.Close()
	}
	x.r.Event("op_readdir", 1)
	if !x.same("open", kind+"-r", mErr, nErr) || mErr != nil {
		x.record("Readdir(%s) [%s] open mem=%s native=%s", name, kind, c44Class(mErr), c44Class(nErr))
		return
	}
	count := []int{-1, 0, 1, 2, 5}[x.rng.IntN(5)]
	var mAll, nAll []os.FileInfo
	var mEnd, nEnd error
	if count <= 0 {
		mAll, mEnd = mf.Readdir(count)
		nAll, nEnd = nf.Readdir(count)
	} else {
		for i := 0; i < 100; i++ {
			fis, err := mf.Readdir(count)
			mAll = append(mAll, fis...)
			if err != nil {
				mEnd = err
				break
			}
		}
		for i := 0; i < 100; i++ {
			fis, err := nf.Readdir(count)
			nAll = append(nAll, fis...)
			if err != nil {
				nEnd = err
				break
			}
		}
	}
	me, ne := c44Entries(mAll), c44Entries(nAll)
	x.record("Readdir(%s, %d) [%s] mem=%v,%s native=%v,%s", name, count, kind, me, c44Class(mEnd), ne, c44Class(nEnd))
	if c44Class(mEnd) != c44Class(nEnd) && (mEnd == nil || nEnd == nil || mEnd == io.EOF || nEnd == io.EOF) {
		x.fail(fmt.Sprintf("readdir-%s-count%s-end-mem-%s-native-%s", kind, map[bool]string{true: "pos", false: "nonpos"}[count > 0], c44Class(mEnd), c44Class(nEnd)),
			"Readdir(%s,%d): mem ended with %v, native with %v", name, count, mEnd, nEnd)
		return
	}
	if strings.Join(me, " ") != strings.Join(ne, " ") {
		x.fail("readdir-entries-differ", "Readdir(%s,%d): mem %v native %v", name, count, me, ne)
		return
	}
	x.r.Event("readdir_entries_compared", int64(len(me)))
}

func (x *c44Run) opMkdir() {
	name := x.respell(x.pickName())
	kind := x.kind(name)
	mErr := x.mem.Mkdir(vfCtx, name, 0777)
	nErr := x.nat.Mkdir(vfCtx, name, 0777)
	x.record("Mkdir(%s) [%s] mem=%s native=%s", name, kind, c44Class(mErr), c44Class(nErr))
	x.r.Event("op_mkdir", 1)
	x.same("mkdir", kind, mErr, nErr)
}

var c44RootSpellings = []string{"/", "", ".", "/.", "//", "/a/..", "/../"}

func (x *c44Run) opRemoveAll() {
	name := x.respell(x.pickName())
	if x.rng.IntN(12) == 0 {
		name = c44RootSpellings[x.rng.IntN(len(c44RootSpellings))]
	}
	kind := x.kind(name)
	if !x.allowed("removeall " + kind) {
		return
	}
	mErr := x.mem.RemoveAll(vfCtx, name)
	nErr := x.nat.RemoveAll(vfCtx, name)
	x.record("RemoveAll(%q) [%s] mem=%s native=%s", name, kind, c44Class(mErr), c44Class(nErr))
	x.r.Event("op_removeall", 1)
	if kind == "root" {
		x.r.Event("root_remove_attempts", 1)
		if mErr == nil {
			x.fail("root-remove-succeeded-mem", "memFS RemoveAll(%q) returned nil", name)
			return
		}
		if nErr == nil {
			x.fail("root-remove-succeeded-native", "Dir RemoveAll(%q) returned nil", name)
			return
		}
	}
	x.same("removeall", kind, mErr, nErr)
}

func (x *c44Run) opRename() {
	oldName, newName := x.respell(x.pickName()), x.respell(x.pickName())
	switch x.rng.IntN(12) {
	case 0:
		oldName = c44RootSpellings[x.rng.IntN(len(c44RootSpellings))]
	case 1:
		newName = c44RootSpellings[x.rng.IntN(len(c44RootSpellings))]
	case 2:
		newName = oldName
	}
	ok, nk := x.kind(oldName), x.kind(newName)
	oc, nc := path.Clean("/"+oldName), path.Clean("/"+newName)
	shape := ok + "-to-" + nk
	over := false
	switch {
	case oc == nc && ok == "root":
		shape = "root-onto-itself"
	case oc == nc && (ok == "dir" || ok == "file"):
		// os.Rename(x, x) of an existing entry is a rename over an existing entry (package os
		// itself answers EEXIST for a directory): exempt, and it cannot change either tree.
		shape = "existing-onto-itself"
	case oc == nc:
		shape = "nonexistent-onto-itself"
	case ok == "root" || nk == "root":
	case vfUnder(nc, oc):
		shape = ok + "-into-own-subtree"
	case nk == "dir" || nk == "file":
		over = true
		shape = ok + "-over-existing-" + nk
	}
	if !x.allowed("rename " + shape) {
		return
	}
	if over && x.rng.IntN(4) != 0 {
		return // rename over an existing entry ends the history: keep it rare
	}
	mErr := x.mem.Rename(vfCtx, oldName, newName)
	nErr := x.nat.Rename(vfCtx, oldName, newName)
	x.record("Rename(%q,%q) [%s] mem=%s native=%s", oldName, newName, shape, c44Class(mErr), c44Class(nErr))
	x.r.Event("op_rename", 1)
	if shape == "existing-onto-itself" {
		x.r.Event("rename_existing_onto_itself_exempt", 1)
		return
	}
	if ok == "root" || nk == "root" {
		x.r.Event("root_rename_attempts", 1)
		key := "root-rename-succeeded"
		if shape == "root-onto-itself" {
			key = "root-rename-onto-itself-succeeded"
		}
		if mErr == nil {
			x.fail(key+"-mem", "memFS Rename(%q,%q) returned nil", oldName, newName)
			x.r.Event("div_"+key+"-mem", 1)
			return
		}
		if nErr == nil {
			x.fail(key+"-native", "Dir Rename(%q,%q) returned nil", oldName, newName)
			return
		}
		return
	}
	if strings.HasSuffix(shape, "-into-own-subtree") && ok == "dir" {
		x.r.Event("rename_into_own_subtree_attempts", 1)
		if mErr == nil {
			x.fail("rename-into-own-subtree-succeeded-mem", "memFS Rename(%q,%q) returned nil", oldName, newName)
			return
		}
		if nErr == nil {
			x.fail("rename-into-own-subtree-succeeded-native", "Dir Rename(%q,%q) returned nil", oldName, newName)
			return
		}
	}
	if over {
		// OS-dependent by contract: not compared; the trees may differ from here on.
		x.r.Event("rename_over_existing_exempt", 1)
		if (mErr == nil) != (nErr == nil) {
			x.r.Event("rename_over_existing_outcomes_differ", 1)
		}
		x.ended = "rename-over-existing"
		return
	}
	x.same("rename", shape, mErr, nErr)
}

func (x *c44Run) compareTrees(after string) bool {
	ms, e1 := vfSnapshot(x.mem)
	ns, e2 := vfSnapshot(x.nat)
	if e1 != nil || e2 != nil {
		x.fail("tree-walk-failed", "snapshot errors: mem=%v native=%v", e1, e2)
		return false
	}
	for p, n := range ms { // dead properties are not part of this comparison
		n.Props = ""
		ms[p] = n
	}
	if d := vfDiff(ns, ms, false); d != "" {
		op := after
		if i := strings.IndexAny(op, "( "); i > 0 {
			op = op[:i]
		}
		x.fail("tree-differs-after-"+op, "trees differ (native -> mem): %s\n native: %s\n mem:    %s", d, vfListing(ns), vfListing(ms))
		return false
	}
	x.r.Event("tree_comparisons", 1)
	x.r.Event("tree_nodes_compared", int64(len(ns)))
	return true
}

func c44History(r *verifrt.R, c *verifrt.Case) {
	root := filepath.Join(r.Out, "c44", fmt.Sprintf("%s_%d", c.Stream, c.Index))
	os.RemoveAll(root)
	if err := os.MkdirAll(root, 0o755); err != nil {
		r.Note("cannot create %s: %v", root, err)
		return
	}
	defer os.RemoveAll(root)
	x := &c44Run{r: r, c: c, rng: c.Rng, mem: NewMemFS(), nat: Dir(root), root: root, sig: 14695981039346656037}
	x.probe = c.Rng.IntN(4) == 0
	x.nops = 25 + c.Rng.IntN(56)
	defer func() {
		for _, h := range x.hs {
			h.m.Close()
			h.n.Close()
		}
	}()
	mutations := 0
	for i := 0; i < x.nops && x.ended == ""; i++ {
		before := len(x.log)
		switch k := x.rng.IntN(100); {
		case k < 12:
			x.opMkdir()
			mutations++
		case k < 34:
			x.opOpen()
		case k < 52:
			x.opWrite()
			mutations++
		case k < 66:
			x.opRead()
		case k < 74:
			x.opSeek()
		case k < 80:
			x.opStat()
		case k < 86:
			x.opReaddir()
		case k < 92:
			x.opRename()
			mutations++
		case k < 96:
			x.opRemoveAll()
			mutations++
		default:
			if len(x.hs) > 0 {
				x.closeHandle(x.rng.IntN(len(x.hs)))
			}
		}
		r.Event("ops", 1)
		if x.ended == "" && len(x.log) > before && i%8 == 7 {
			x.compareTrees(x.log[len(x.log)-1])
		}
	}
	if x.ended == "" {
		last := "end"
		if len(x.log) > 0 {
			last = x.log[len(x.log)-1]
		}
		if x.compareTrees(last) {
			r.Event("histories_completed", 1)
		}
	} else {
		r.Event("histories_ended_early", 1)
	}
	if x.probe {
		r.Event("probing_histories", 1)
	}
	// non-trivial: the history changed the tree several times and ran at least 20 ops
	r.EvalHash(len(x.log) >= 20 && mutations >= 5, x.sig)
	if c.Index < 2 {
		r.Sample(map[string]any{"probing": x.probe, "ops": len(x.log), "ended": x.ended, "first_ops": append([]string{}, x.log[:min(8, len(x.log))]...)})
	}
}

func TestVerif_C44(t *testing.T) {
	r := verifrt.Start(t, "C44")
	defer r.Finish()
	r.SetRule("history = 25-80 PRNG calls (Mkdir, OpenFile with flags from {RDONLY,WRONLY,RDWR}x{CREATE,EXCL,TRUNC,APPEND,SYNC}, Write 0-10 KiB, Read, Seek whence 0/1/2 incl. negative and past-the-end offsets, Stat, Readdir(-1/0/n), Rename, RemoveAll, Close; up to 6 open handles, several on one file) over 12 names in a 4-level namespace, applied to NewMemFS() and to Dir(fresh temp dir); per-call success/failure, byte counts, data, offsets, Stat and Readdir results compared, whole trees compared every 8 calls and at the end. non-trivial = at least 20 executed calls of which >=5 mutate the tree; distinct by hash of the call/outcome sequence")
	r.Assume("the native filesystem under VERIF_OUT (package os on linux) is the reference for 'the os package's semantics'; shapes whose native outcome is OS specific or unspecified are not generated (listed in the monitor's header); rename over an existing entry is exempt by the FileSystem documentation")

	r.CasesParallel("history", r.N(1500, 40000), 0, func(c *verifrt.Case) { c44History(r, c) })
	os.RemoveAll(filepath.Join(r.Out, "c44"))

	r.Require("ops", 20000)
	r.Require("histories_completed", 300)
	r.Require("tree_comparisons", 1000)
	r.Require("bytes_read_compared", 100000)
	r.Require("op_rename", 500)
	r.Require("root_remove_attempts", 10)
	r.Require("root_rename_attempts", 20)
	r.Require("rename_into_own_subtree_attempts", 10)
}
