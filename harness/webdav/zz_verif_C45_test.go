//go:build verif

package webdav

// C45: Dir keeps every request path inside its root.
//
// (a) REF, white-box: Dir.resolve(name) against an independent lexical reference.
// (b) filesystem-effect monitor: hostile names through Mkdir/OpenFile/Rename/RemoveAll/Stat on
//     a Dir rooted at <case>/jail/root with sentinel files in jail/ and above it; after every
//     call everything outside the root must be unchanged and the effect must sit at
//     root/<reference-cleaned name>; root spellings must be refused by RemoveAll and Rename.
// (c) thorough tier, optional witness: the same kind of workload re-executed in a child
//     process under strace; every path the process handed to the kernel between two marker
//     calls must lie inside the root. Skipped with a note when strace is not usable.

import (
	"bufio"
	"context"
	"fmt"
	"io"
	"math/rand/v2"
	"os"
	"os/exec"
	"path/filepath"
	"regexp"
	"sort"
	"strconv"
	"strings"
	"testing"
	"time"

	"golang.org/x/net/internal/verifrt"
)

var c45Segs = []string{"..", "..", "..", ".", "", "a", "b", "keep", "f.txt", "k.txt", "...", "..a", "a..", ". .", "%2e%2e", "%2f", "..%2f", "\\", "..\\", "a\\..\\..", " ", "é", "root", "rootx", "jail", "sibling", "sentinel.txt", "outer.txt"}

// c45Name builds a hostile slash-separated name. nul reports whether it contains a NUL byte.
func c45Name(rng *rand.Rand) (name string, nul bool) {
	n := rng.IntN(7)
	var segs []string
	for i := 0; i < n; i++ {
		s := c45Segs[rng.IntN(len(c45Segs))]
		switch rng.IntN(60) {
		case 0:
			s = strings.Repeat("x", 300) // longer than NAME_MAX
		case 1:
			s = "a\x00b"
		case 2:
			s = "\x00"
		case 3:
			s = "..\x00"
		}
		segs = append(segs, s)
	}
	name = strings.Join(segs, "/")
	switch rng.IntN(6) {
	case 0:
	case 1:
		name = "//" + name
	case 2:
		name = "/../" + name
	default:
		name = "/" + name
	}
	if rng.IntN(5) == 0 {
		name += "/"
	}
	if rng.IntN(12) == 0 {
		name += "/.."
	}
	if rng.IntN(200) == 0 {
		name = strings.Repeat("../", 1500) + name // longer than PATH_MAX once joined
	}
	return name, strings.Contains(name, "\x00")
}

var c45RootNames = []string{"", "/", ".", "./", "/.", "//", "/..", "..", "../..", "/a/..", "a/..", "/a/b/../..", "/../", "a/../../.."}

func c45Inside(root, p string) bool {
	root = filepath.Clean(root)
	return p == root || strings.HasPrefix(p, strings.TrimSuffix(root, "/")+"/")
}

// c45Outside lists everything under caseDir that is not inside root: path -> content/kind.
func c45Outside(caseDir, root string) (map[string]string, error) {
	out := map[string]string{}
	err := filepath.Walk(caseDir, func(p string, fi os.FileInfo, err error) error {
		if err != nil {
			return err
		}
		if p == root {
			out[p] = "ROOT"
			return filepath.SkipDir
		}
		switch {
		case fi.IsDir():
			out[p] = "dir"
		case fi.Mode().IsRegular():
			b, err := os.ReadFile(p)
			if err != nil {
				return err
			}
			out[p] = "file:" + string(b)
		default:
			out[p] = "other:" + fi.Mode().String()
		}
		return nil
	})
	return out, err
}

func c45MapDiff(a, b map[string]string) string {
	var d []string
	for k, v := range a {
		if w, ok := b[k]; !ok {
			d = append(d, k+" gone")
		} else if w != v {
			d = append(d, fmt.Sprintf("%s %q->%q", k, v, w))
		}
	}
	for k := range b {
		if _, ok := a[k]; !ok {
			d = append(d, k+" new")
		}
	}
	sort.Strings(d)
	return strings.Join(d, "; ")
}

// c45Setup creates <caseDir>/jail/root with sentinels around and some content inside.
func c45Setup(caseDir string) (root string, err error) {
	root = filepath.Join(caseDir, "jail", "root")
	for _, d := range []string{filepath.Join(root, "keep"), filepath.Join(root, "a", "b"), filepath.Join(caseDir, "jail", "sibling"), filepath.Join(caseDir, "jail", "rootx")} {
		if err = os.MkdirAll(d, 0o755); err != nil {
			return
		}
	}
	for p, c := range map[string]string{
		filepath.Join(caseDir, "outer.txt"):                   "outer",
		filepath.Join(caseDir, "jail", "sentinel.txt"):        "sentinel",
		filepath.Join(caseDir, "jail", "sibling", "k.txt"):    "inner",
		filepath.Join(caseDir, "jail", "rootx", "f.txt"):      "prefix-trap",
		filepath.Join(root, "keep", "k.txt"):                  "kept",
		filepath.Join(root, "f.txt"):                          "f",
		filepath.Join(root, "a", "b", "sentinel.txt"):         "in-root",
		filepath.Join(caseDir, "jail", "a"):                   "file named like a root child",
		filepath.Join(caseDir, "jail", "sibling", "f.txt"):    "x",
		filepath.Join(caseDir, "jail", "sibling", "keep.txt"): "y",
	} {
		if err = os.WriteFile(p, []byte(c), 0o644); err != nil {
			return
		}
	}
	return root, nil
}

func c45DirSpelling(rng *rand.Rand, caseDir, root string) (Dir, string) {
	switch rng.IntN(6) {
	case 0:
		return Dir(root + "/"), "trailing-slash"
	case 1:
		return Dir(filepath.Join(caseDir, "jail") + "/sibling/../root"), "dotdot"
	case 2:
		return Dir(root + "/."), "trailing-dot"
	case 3:
		return Dir(filepath.Join(caseDir, "jail") + "//root"), "double-slash"
	}
	return Dir(root), "clean"
}

type c45Op struct {
	Op    string `json:"op"`
	Name  string `json:"name"`
	Name2 string `json:"name2,omitempty"`
}

func c45GenOp(rng *rand.Rand) (c45Op, bool) {
	name, nul := c45Name(rng)
	if rng.IntN(8) == 0 {
		name, nul = c45RootNames[rng.IntN(len(c45RootNames))], false
	}
	op := c45Op{Name: name}
	switch k := rng.IntN(100); {
	case k < 20:
		op.Op = "mkdir"
	case k < 45:
		op.Op = "create"
	case k < 55:
		op.Op = "read"
	case k < 65:
		op.Op = "stat"
	case k < 85:
		op.Op = "rename"
		n2, nul2 := c45Name(rng)
		if rng.IntN(8) == 0 {
			n2, nul2 = c45RootNames[rng.IntN(len(c45RootNames))], false
		}
		op.Name2 = n2
		nul = nul || nul2
	default:
		op.Op = "removeall"
	}
	return op, nul
}

// c45Apply performs op on d; tag is what a create writes.
func c45Apply(d Dir, op c45Op, tag string) error {
	ctx := context.Background()
	switch op.Op {
	case "mkdir":
		return d.Mkdir(ctx, op.Name, 0o777)
	case "create":
		f, err := d.OpenFile(ctx, op.Name, os.O_RDWR|os.O_CREATE|os.O_TRUNC, 0o666)
		if err != nil {
			return err
		}
		_, err = f.Write([]byte(tag))
		f.Close()
		return err
	case "read":
		f, err := d.OpenFile(ctx, op.Name, os.O_RDONLY, 0)
		if err != nil {
			return err
		}
		io.Copy(io.Discard, f)
		return f.Close()
	case "stat":
		_, err := d.Stat(ctx, op.Name)
		return err
	case "rename":
		return d.Rename(ctx, op.Name, op.Name2)
	case "removeall":
		return d.RemoveAll(ctx, op.Name)
	}
	return nil
}

func TestVerif_C45(t *testing.T) {
	if os.Getenv("VERIF_C45_CHILD") != "" {
		c45Child(t)
		return
	}
	r := verifrt.Start(t, "C45")
	defer r.Finish()
	r.SetRule("(a) names = 0-6 segments from {.., ., empty, plain, '...', '..a', percent-encoded dots/slashes, backslashes, NUL, 300-byte segment} with 0-3 leading slashes, optional trailing slash/'..', sometimes 1500 leading '../'; Dir values clean, with trailing slash, '.', '', relative, '/'. (b) 10-30 Mkdir/create+write/read/Stat/Rename/RemoveAll calls with such names (1 in 8 a spelling of the root) on Dir(<case>/jail/root) spelled clean or un-clean, sentinels in jail/, jail/sibling, jail/rootx and above jail. non-trivial = name whose literal join with the root would leave the root (contains a '..' segment that climbs above the start) or names the root or contains NUL; distinct by name")
	r.Assume("lexical reference vfRefClean (written from path.Clean's documentation) + filepath.Join; symbolic links are not generated (Dir documents that it does not confine them); the strace witness trusts strace -y path decoding")

	// (a) resolve against the reference
	roots := []string{"/srv/dav", "/srv/dav/", "/srv/dav/.", "/srv//dav", "", ".", "rel/dir", "/", "/srv/dav/../dav"}
	r.CasesParallel("resolve", 16, 0, func(c *verifrt.Case) {
		n := r.N(20000, 400000)
		for i := 0; i < n; i++ {
			name, nul := c45Name(c.Rng)
			if c.Rng.IntN(10) == 0 {
				name, nul = c45RootNames[c.Rng.IntN(len(c45RootNames))], false
			}
			root := roots[c.Rng.IntN(len(roots))]
			c.Describe(map[string]any{"dir": root, "name": name})
			got := Dir(root).resolve(name)
			r.Event("resolve_checked", 1)
			clean := vfRefClean(name)
			escaping := c45Climbs(name)
			r.EvalBytes(escaping || nul || clean == "/", []byte(root+"\x01"+name))
			if nul {
				r.Event("resolve_nul_names", 1)
				if got != "" {
					c.Violation("resolve-accepts-nul", "Dir(%q).resolve(%q) = %q, want \"\"", root, name, got)
				}
				continue
			}
			base := root
			if base == "" {
				base = "."
			}
			want := filepath.Join(base, filepath.FromSlash(clean))
			if got != want {
				c.Violation("resolve-not-root-plus-cleaned-name", "Dir(%q).resolve(%q) = %q, reference %q", root, name, got, want)
				continue
			}
			rel, err := filepath.Rel(filepath.Clean(base), got)
			if err != nil || rel == ".." || strings.HasPrefix(rel, "../") {
				c.Violation("resolve-escapes-root", "Dir(%q).resolve(%q) = %q which is %q relative to the root (err %v)", root, name, got, rel, err)
			}
			if escaping {
				r.Event("resolve_climbing_names", 1)
			}
		}
	})

	// (b) effects on a real directory
	r.CasesParallel("jail", r.N(400, 8000), 0, func(c *verifrt.Case) { c45Jail(r, c) })
	os.RemoveAll(filepath.Join(r.Out, "c45"))

	// (c) strace witness
	if r.Thorough() && r.Replay == nil {
		c45Strace(r)
	}

	r.Require("resolve_checked", 100000)
	r.Require("resolve_climbing_names", 10000)
	r.Require("resolve_nul_names", 1000)
	r.Require("jail_ops", 4000)
	r.Require("jail_ops_succeeded", 500)
	r.Require("jail_climbing_names", 1000)
	r.Require("root_removeall_attempts", 50)
	r.Require("root_rename_attempts", 100)
	r.Require("outside_checks", 4000)
}

// c45Climbs: would the name, joined literally to a directory, leave it at some point?
func c45Climbs(name string) bool {
	depth := 0
	for _, s := range strings.Split(name, "/") {
		switch s {
		case "", ".":
		case "..":
			depth--
			if depth < 0 {
				return true
			}
		default:
			depth++
		}
	}
	return false
}

func c45Jail(r *verifrt.R, c *verifrt.Case) {
	rng := c.Rng
	caseDir := filepath.Join(r.Out, "c45", fmt.Sprintf("%s_%d", c.Stream, c.Index))
	os.RemoveAll(caseDir)
	defer os.RemoveAll(caseDir)
	root, err := c45Setup(caseDir)
	if err != nil {
		r.Note("setup failed: %v", err)
		return
	}
	d, dsp := c45DirSpelling(rng, caseDir, root)
	outside0, err := c45Outside(caseDir, root)
	if err != nil {
		r.Note("outside listing failed: %v", err)
		return
	}
	var log []string
	nops := 10 + rng.IntN(21)
	for i := 0; i < nops; i++ {
		op, nul := c45GenOp(rng)
		tag := fmt.Sprintf("tag-%d-%d", c.Index, i)
		clean1, clean2 := vfRefClean(op.Name), vfRefClean(op.Name2)
		p1, p2 := filepath.Join(root, filepath.FromSlash(clean1)), filepath.Join(root, filepath.FromSlash(clean2))
		rootBefore, _ := c45Outside(root, "") // whole root subtree
		err := c45Apply(d, op, tag)
		log = append(log, fmt.Sprintf("%s(%q,%q) dir=%s -> %v", op.Op, op.Name, op.Name2, dsp, err))
		if len(log) > 12 {
			log = log[1:]
		}
		c.Describe(map[string]any{"dir_spelling": dsp, "op": op, "recent": log})
		r.Event("jail_ops", 1)
		if err == nil {
			r.Event("jail_ops_succeeded", 1)
		}
		climbing := c45Climbs(op.Name) || (op.Op == "rename" && c45Climbs(op.Name2))
		if climbing {
			r.Event("jail_climbing_names", 1)
		}
		r.EvalBytes(climbing || nul || clean1 == "/" || (op.Op == "rename" && clean2 == "/"), []byte(op.Op+"\x01"+op.Name+"\x01"+op.Name2))
		detail := func() string { return strings.Join(log, "\n  ") }

		// 1. nothing outside the root changed, the root is still there
		outside, oerr := c45Outside(caseDir, root)
		r.Event("outside_checks", 1)
		if oerr != nil {
			c.Violation("outside-tree-unreadable", "after %s: %v\n  %s", op.Op, oerr, detail())
			return
		}
		if diff := c45MapDiff(outside0, outside); diff != "" {
			key := "outside-tree-changed-by-" + op.Op
			if _, ok := outside[root]; !ok {
				key = "root-itself-removed-or-renamed-by-" + op.Op
			}
			c.Violation(key, "outside the root: %s\n  %s", diff, detail())
			return
		}
		if fi, e := os.Lstat(root); e != nil || !fi.IsDir() {
			c.Violation("root-itself-removed-or-renamed-by-"+op.Op, "root lstat: %v\n  %s", e, detail())
			return
		}
		// 2. NUL names are rejected
		if nul {
			r.Event("jail_nul_names", 1)
			if err == nil {
				c.Violation("nul-name-accepted-by-"+op.Op, "%s\n  %s", log[len(log)-1], detail())
			}
			continue
		}
		// 3. root spellings are refused by RemoveAll and Rename, and nothing changes
		isRoot := (op.Op == "removeall" && clean1 == "/") || (op.Op == "rename" && (clean1 == "/" || clean2 == "/"))
		if isRoot {
			r.Event("root_"+op.Op+"_attempts", 1)
			if err == nil {
				c.Violation(op.Op+"-of-root-succeeded", "%s\n  %s", log[len(log)-1], detail())
			}
			rootAfter, _ := c45Outside(root, "")
			if diff := c45MapDiff(rootBefore, rootAfter); diff != "" {
				c.Violation(op.Op+"-of-root-changed-tree", "%s\n  %s", diff, detail())
				return
			}
			continue
		}
		// 4. the effect sits at root/<cleaned name>
		if err != nil {
			continue
		}
		switch op.Op {
		case "mkdir":
			if fi, e := os.Lstat(p1); e != nil || !fi.IsDir() {
				c.Violation("effect-not-at-cleaned-path-mkdir", "Mkdir(%q) ok but %s: %v\n  %s", op.Name, p1, e, detail())
			}
		case "create":
			if b, e := os.ReadFile(p1); e != nil || string(b) != tag {
				c.Violation("effect-not-at-cleaned-path-create", "create(%q) ok but %s holds %q (%v)\n  %s", op.Name, p1, b, e, detail())
			}
		case "stat", "read":
			if _, e := os.Lstat(p1); e != nil {
				c.Violation("effect-not-at-cleaned-path-"+op.Op, "%s(%q) ok but %s: %v\n  %s", op.Op, op.Name, p1, e, detail())
			}
		case "rename":
			if _, e := os.Lstat(p2); e != nil {
				c.Violation("effect-not-at-cleaned-path-rename", "Rename(%q,%q) ok but %s: %v\n  %s", op.Name, op.Name2, p2, e, detail())
			} else if _, e := os.Lstat(p1); e == nil && p1 != p2 {
				c.Violation("effect-not-at-cleaned-path-rename", "Rename(%q,%q) ok but %s still exists\n  %s", op.Name, op.Name2, p1, detail())
			}
		case "removeall":
			if _, e := os.Lstat(p1); e == nil {
				c.Violation("effect-not-at-cleaned-path-removeall", "RemoveAll(%q) ok but %s still exists\n  %s", op.Name, p1, detail())
			}
		}
	}
	if c.Index < 3 {
		r.Sample(map[string]any{"dir_spelling": dsp, "last_ops": append([]string{}, log[max(0, len(log)-5):]...)})
	}
}

// ---- (c) strace witness ----------------------------------------------------------------

const c45Begin, c45End = "/verif-c45-marker-begin", "/verif-c45-marker-end"

// c45Child runs inside the straced re-execution of the test binary: no oracle here.
func c45Child(t *testing.T) {
	root := os.Getenv("VERIF_C45_CHILD_ROOT")
	seed, _ := strconv.ParseUint(os.Getenv("VERIF_C45_CHILD_SEED"), 10, 64)
	n, _ := strconv.Atoi(os.Getenv("VERIF_C45_CHILD_OPS"))
	if root == "" || n == 0 {
		t.Skip("not a C45 child")
	}
	rng := rand.New(rand.NewPCG(seed, 45))
	d := Dir(root)
	if os.Getenv("VERIF_C45_CHILD_DIRSLASH") != "" {
		d = Dir(root + "/")
	}
	ops := make([]c45Op, n)
	for i := range ops {
		ops[i], _ = c45GenOp(rng)
	}
	os.Stat(c45Begin)
	for i, op := range ops {
		c45Apply(d, op, "child-"+strconv.Itoa(i))
	}
	os.Stat(c45End)
}

var c45StrRe = regexp.MustCompile(`"((?:[^"\\]|\\.)*)"`)
var c45FdRe = regexp.MustCompile(`(AT_FDCWD|\d+<((?:[^<>\\]|\\.)*)>)`)

func c45Unescape(s string) string {
	var b strings.Builder
	for i := 0; i < len(s); i++ {
		if s[i] != '\\' || i+1 >= len(s) {
			b.WriteByte(s[i])
			continue
		}
		i++
		switch s[i] {
		case 'n':
			b.WriteByte('\n')
		case 't':
			b.WriteByte('\t')
		case 'r':
			b.WriteByte('\r')
		case 'v':
			b.WriteByte('\v')
		case 'f':
			b.WriteByte('\f')
		case 'x':
			if i+2 < len(s) {
				if v, err := strconv.ParseUint(s[i+1:i+3], 16, 8); err == nil {
					b.WriteByte(byte(v))
					i += 2
					continue
				}
			}
			b.WriteByte('x')
		default:
			if s[i] >= '0' && s[i] <= '7' {
				j := i
				for j < len(s) && j < i+3 && s[j] >= '0' && s[j] <= '7' {
					j++
				}
				v, _ := strconv.ParseUint(s[i:j], 8, 16)
				b.WriteByte(byte(v))
				i = j - 1
			} else {
				b.WriteByte(s[i])
			}
		}
	}
	return b.String()
}

func c45Strace(r *verifrt.R) {
	skip := func(f string, a ...any) {
		r.Note("strace witness skipped: "+f, a...)
		r.Event("strace_witness_skipped", 1)
	}
	stracePath, err := exec.LookPath("strace")
	if err != nil {
		skip("strace not found")
		return
	}
	rounds := 6
	for round := 0; round < rounds; round++ {
		caseDir := filepath.Join(r.Out, "c45", fmt.Sprintf("strace_%d", round))
		os.RemoveAll(caseDir)
		root, err := c45Setup(caseDir)
		if err != nil {
			skip("setup: %v", err)
			return
		}
		outside0, _ := c45Outside(caseDir, root)
		trace := filepath.Join(r.Out, fmt.Sprintf("c45_strace_%d.txt", round))
		ctx, cancel := context.WithTimeout(context.Background(), 5*time.Minute)
		cmd := exec.CommandContext(ctx, stracePath, "-f", "-y", "-s", "70000", "-e", "trace=%file", "-o", trace,
			os.Args[0], "-test.run=^TestVerif_C45$", "-test.count=1")
		cmd.Env = append(os.Environ(), "VERIF_C45_CHILD=1", "VERIF_C45_CHILD_ROOT="+root,
			fmt.Sprintf("VERIF_C45_CHILD_SEED=%d", r.Seed*1000+uint64(round)), "VERIF_C45_CHILD_OPS=400", "GOMAXPROCS=2")
		if round%2 == 1 {
			cmd.Env = append(cmd.Env, "VERIF_C45_CHILD_DIRSLASH=1")
		}
		out, err := cmd.CombinedOutput()
		cancel()
		if err != nil {
			skip("child under strace failed: %v: %s", err, vfShort(string(out)))
			os.RemoveAll(caseDir)
			return
		}
		f, err := os.Open(trace)
		if err != nil {
			skip("no trace file: %v", err)
			os.RemoveAll(caseDir)
			return
		}
		sc := bufio.NewScanner(f)
		sc.Buffer(make([]byte, 1<<20), 1<<26)
		in, sawBegin, sawEnd := false, false, false
		var lines, paths int64
		for sc.Scan() {
			ln := sc.Text()
			if strings.Contains(ln, `"`+c45Begin+`"`) {
				in, sawBegin = true, true
				continue
			}
			if strings.Contains(ln, `"`+c45End+`"`) {
				in, sawEnd = false, true
				continue
			}
			if !in || strings.Contains(ln, "resumed>") || strings.HasPrefix(strings.TrimLeft(strings.TrimLeft(ln, "0123456789"), " "), "+++") || strings.Contains(ln, "--- SIG") {
				continue
			}
			lines++
			// strip the result part so that returned paths/structs are not taken for arguments
			call := ln
			if i := strings.LastIndex(call, ") = "); i >= 0 {
				call = call[:i]
			}
			// dirfd annotations: every decoded descriptor path must be inside the root
			var dirfds []string
			for _, m := range c45FdRe.FindAllStringSubmatch(call, -1) {
				if m[1] == "AT_FDCWD" {
					dirfds = append(dirfds, "AT_FDCWD")
				} else {
					dirfds = append(dirfds, c45Unescape(m[2]))
				}
			}
			strs := c45StrRe.FindAllStringSubmatch(call, -1)
			for i, m := range strs {
				p := c45Unescape(m[1])
				paths++
				bad := ""
				hasDotDot := false
				for _, s := range strings.Split(p, "/") {
					if s == ".." {
						hasDotDot = true
					}
				}
				switch {
				case hasDotDot:
					bad = "path argument contains a '..' element"
				case strings.HasPrefix(p, "/"):
					if !c45Inside(root, filepath.Clean(p)) {
						bad = "absolute path outside the root"
					}
				default:
					fd := "AT_FDCWD"
					if i < len(dirfds) {
						fd = dirfds[i]
					} else if len(dirfds) > 0 {
						fd = dirfds[len(dirfds)-1]
					}
					if fd == "AT_FDCWD" {
						bad = "relative path resolved against the working directory"
					} else if !c45Inside(root, filepath.Clean(fd)) {
						bad = "relative path below a descriptor outside the root (" + fd + ")"
					}
				}
				if bad != "" {
					r.Violation("strace-path-outside-root", "%s: %q in: %s (root %s, round %d)", bad, p, vfShort(ln)+" …", root, round)
				}
			}
		}
		f.Close()
		if !sawBegin || !sawEnd {
			skip("markers not found in the trace (begin=%v end=%v)", sawBegin, sawEnd)
			os.RemoveAll(caseDir)
			return
		}
		r.Event("strace_rounds", 1)
		r.Event("strace_syscall_lines_checked", lines)
		r.Event("strace_path_arguments_checked", paths)
		outside, _ := c45Outside(caseDir, root)
		if diff := c45MapDiff(outside0, outside); diff != "" {
			r.Violation("outside-tree-changed-in-strace-child", "%s", diff)
		}
		os.RemoveAll(caseDir)
		os.Remove(trace)
	}
}
