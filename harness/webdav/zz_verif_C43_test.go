//go:build verif

package webdav

// C43: the in-memory LockSystem is mutually exclusive, expires correctly, holds/releases
// confirmed locks and never repeats a token.
//
// Monitor shape: HIST against a small sequential model written from the LockSystem interface
// documentation and the property statement, plus white-box invariants on memLS (refcounts,
// expiry heap, live locks pairwise non-conflicting) every few operations, plus a short
// concurrent run (under -race in the thorough tier) for the mutex discipline.

import (
	"fmt"
	"math/rand/v2"
	"sort"
	"strings"
	"sync"
	"testing"
	"time"

	"golang.org/x/net/internal/verifrt"
)

type c43Lock struct {
	token    string
	root     string
	zero     bool
	infinite bool
	expiry   time.Time
	duration time.Duration
	owner    string
	held     bool
}

type c43Model struct {
	locks map[string]*c43Lock // live locks by token
}

func c43Clean(name string) string {
	// path.Clean("/"+name) written out: split on '/', drop "" and ".", pop on "..".
	var out []string
	for _, seg := range strings.Split(name, "/") {
		switch seg {
		case "", ".":
		case "..":
			if len(out) > 0 {
				out = out[:len(out)-1]
			}
		default:
			out = append(out, seg)
		}
	}
	return "/" + strings.Join(out, "/")
}

// covers: does a lock rooted at root (infinite depth unless zero) cover name?
func c43Covers(root string, zero bool, name string) bool {
	if root == name {
		return true
	}
	if zero {
		return false
	}
	return root == "/" || strings.HasPrefix(name, root+"/")
}

func c43Conflict(aRoot string, aZero bool, bRoot string, bZero bool) bool {
	return c43Covers(aRoot, aZero, bRoot) || c43Covers(bRoot, bZero, aRoot)
}

// expire drops unheld finite locks whose expiry is not in the future; returns how many.
func (m *c43Model) expire(now time.Time) int {
	n := 0
	for t, l := range m.locks {
		if !l.held && !l.infinite && !now.Before(l.expiry) {
			delete(m.locks, t)
			n++
		}
	}
	return n
}

func (m *c43Model) canCreate(root string, zero bool) bool {
	for _, l := range m.locks {
		if c43Conflict(l.root, l.zero, root, zero) {
			return false
		}
	}
	return true
}

// lookup: the first presented token naming a live, unheld lock that covers name.
func (m *c43Model) lookup(name string, conds []Condition) *c43Lock {
	for _, c := range conds {
		if c.Token == "" {
			continue
		}
		l := m.locks[c.Token]
		if l == nil || l.held {
			continue
		}
		if c43Covers(l.root, l.zero, name) {
			return l
		}
	}
	return nil
}

func c43ErrName(err error) string {
	switch err {
	case nil:
		return "nil"
	case ErrLocked:
		return "ErrLocked"
	case ErrNoSuchLock:
		return "ErrNoSuchLock"
	case ErrConfirmationFailed:
		return "ErrConfirmationFailed"
	case ErrForbidden:
		return "ErrForbidden"
	}
	return "other(" + err.Error() + ")"
}

// c43WhiteBox checks the internal bookkeeping of m against itself (no model involved).
func c43WhiteBox(m *memLS) (key, detail string) {
	m.mu.Lock()
	defer m.mu.Unlock()
	// byToken <-> byName
	var live []*memLSNode
	for tok, n := range m.byToken {
		if n.token != tok {
			return "inv-bytoken", fmt.Sprintf("byToken[%q] has token %q", tok, n.token)
		}
		if m.byName[n.details.Root] != n {
			return "inv-bytoken", fmt.Sprintf("lock %q root %q is not the byName node", tok, n.details.Root)
		}
		live = append(live, n)
	}
	for name, n := range m.byName {
		if n.details.Root != name {
			return "inv-byname", fmt.Sprintf("byName[%q].Root=%q", name, n.details.Root)
		}
		if n.token != "" && m.byToken[n.token] != n {
			return "inv-bytoken", fmt.Sprintf("node %q carries token %q unknown to byToken", name, n.token)
		}
		want := 0
		for _, l := range live {
			if l.details.Root == name || name == "/" || strings.HasPrefix(l.details.Root, name+"/") {
				want++
			}
		}
		if n.refCount != want {
			return "inv-refcount", fmt.Sprintf("byName[%q].refCount=%d, locked self-or-descendants=%d", name, n.refCount, want)
		}
		if want == 0 {
			return "inv-refcount", fmt.Sprintf("byName[%q] kept although nothing below it is locked", name)
		}
	}
	// every live lock has nodes up to the root
	for _, l := range live {
		for p := l.details.Root; ; {
			if m.byName[p] == nil {
				return "inv-byname", fmt.Sprintf("ancestor %q of lock root %q missing from byName", p, l.details.Root)
			}
			if p == "/" {
				break
			}
			p = p[:strings.LastIndex(p, "/")]
			if p == "" {
				p = "/"
			}
		}
	}
	// live locks pairwise non-conflicting (the mutual-exclusion clause, on the real state)
	for i := range live {
		for j := i + 1; j < len(live); j++ {
			a, b := live[i], live[j]
			if c43Conflict(a.details.Root, a.details.ZeroDepth, b.details.Root, b.details.ZeroDepth) {
				return "inv-overlapping-live-locks", fmt.Sprintf("locks %q (%s zero=%v) and %q (%s zero=%v) coexist", a.token, a.details.Root, a.details.ZeroDepth, b.token, b.details.Root, b.details.ZeroDepth)
			}
		}
	}
	// expiry heap = exactly the finite, unheld live locks; indices and heap order right
	inHeap := map[*memLSNode]bool{}
	for i, n := range m.byExpiry {
		if n.byExpiryIndex != i {
			return "inv-heap", fmt.Sprintf("byExpiry[%d].byExpiryIndex=%d", i, n.byExpiryIndex)
		}
		if inHeap[n] {
			return "inv-heap", fmt.Sprintf("lock %q twice in byExpiry", n.token)
		}
		inHeap[n] = true
		if n.token == "" || m.byToken[n.token] != n {
			return "inv-heap", fmt.Sprintf("byExpiry[%d] (root %q) is not a live lock", i, n.details.Root)
		}
		if i > 0 && n.expiry.Before(m.byExpiry[(i-1)/2].expiry) {
			return "inv-heap", fmt.Sprintf("heap order broken at %d", i)
		}
	}
	for _, l := range live {
		want := l.details.Duration >= 0 && !l.held
		if inHeap[l] != want {
			return "inv-heap", fmt.Sprintf("lock %q (duration %v held=%v) in heap=%v want %v", l.token, l.details.Duration, l.held, inHeap[l], want)
		}
		if !inHeap[l] && l.byExpiryIndex != -1 {
			return "inv-heap", fmt.Sprintf("lock %q not in heap but byExpiryIndex=%d", l.token, l.byExpiryIndex)
		}
	}
	return "", ""
}

var c43Names = []string{"/", "/a", "/a/b", "/a/b/c", "/a/x", "/ab", "/a/b/cd", "/z"}

func c43SpellName(rng *rand.Rand, n string) string {
	switch rng.IntN(10) {
	case 0:
		return n + "/"
	case 1:
		return strings.ReplaceAll(n, "/", "//")
	case 2:
		return strings.TrimPrefix(n, "/") // "" for the root: an empty Root is the root for Create
	case 3:
		return n + "/."
	case 4:
		return n + "/q/.."
	case 5:
		return "/." + n
	}
	return n
}

var c43Durations = []time.Duration{-1, -1, 0, time.Second, time.Second, time.Hour, -time.Hour, 90 * time.Minute}

type c43Held struct {
	release func()
	locks   []*c43Lock
}

func TestVerif_C43(t *testing.T) {
	r := verifrt.Start(t, "C43")
	defer r.Finish()
	r.SetRule("history = 200-2000 PRNG operations (Create/Refresh/Unlock/Confirm/release) over 8 names of a 3-level tree in clean and un-clean spellings, durations {infinite, 0, 1s, 1h, 90m}, monotone clock steps {0, 1ns, 0.5s, 1s, 30m, 1h, to-exactly-an-expiry, 1ns-before-an-expiry}; every result compared with a sequential model; white-box bookkeeping checked every few ops. non-trivial = history with >=1 Create refused for a conflict, >=1 lock expired, >=1 successful Confirm and >=1 operation refused because the lock was held; distinct by hash of the (op,result) sequence")
	r.Assume("sequential model written from the LockSystem interface documentation and the property statement; a lock is expired at exactly its expiry instant (!now.Before(expiry)), as DESIGN.md fixes; Condition.Not/ETag are not generated with tokens (the interface leaves them unspecified for memLS)")

	r.CasesParallel("history", r.N(300, 4000), 0, func(c *verifrt.Case) { c43History(r, c) })
	r.Cases("concurrent", r.N(4, 40), func(c *verifrt.Case) { c43Concurrent(r, c) })

	r.Require("ops", 20000)
	r.Require("create_ok", 1000)
	r.Require("create_refused_conflict", 1000)
	r.Require("locks_expired", 500)
	r.Require("confirm_ok", 500)
	r.Require("refused_because_held", 200)
	r.Require("ops_at_exact_expiry", 100)
	r.Require("whitebox_checks", 1000)
}

func c43History(r *verifrt.R, c *verifrt.Case) {
	rng := c.Rng
	ls := NewMemLS()
	impl := ls.(*memLS)
	model := &c43Model{locks: map[string]*c43Lock{}}
	now := time.Unix(1_000_000_000, 0)
	nops := 200 + rng.IntN(1801)
	if !r.Thorough() {
		nops = 200 + rng.IntN(600)
	}
	var allTokens []string // every token ever returned (dead ones too)
	seen := map[string]bool{}
	var outstanding []*c43Held
	var log []string
	var sawConflict, sawExpire, sawConfirm, sawHeldRefusal bool
	h := uint64(14695981039346656037)
	mix := func(s string) {
		for i := 0; i < len(s); i++ {
			h = (h ^ uint64(s[i])) * 1099511628211
		}
	}
	record := func(f string, a ...any) {
		s := fmt.Sprintf(f, a...)
		mix(s)
		log = append(log, fmt.Sprintf("t=%v %s", now.Sub(time.Unix(1_000_000_000, 0)), s))
		if len(log) > 30 {
			log = log[1:]
		}
	}
	fail := func(key, f string, a ...any) {
		c.Describe(map[string]any{"ops_before_failure": len(log), "last_ops": log})
		c.Violation(key, "%s\nlast operations:\n  %s", fmt.Sprintf(f, a...), strings.Join(log, "\n  "))
	}
	pickToken := func() string {
		k := rng.IntN(10)
		if k < 7 && len(model.locks) > 0 {
			ts := make([]string, 0, len(model.locks))
			for t := range model.locks {
				ts = append(ts, t)
			}
			sort.Strings(ts)
			return ts[rng.IntN(len(ts))]
		}
		if k < 9 && len(allTokens) > 0 {
			return allTokens[rng.IntN(len(allTokens))]
		}
		return "urn:verif:never-issued"
	}
	defer func() {
		r.EvalHash(sawConflict && sawExpire && sawConfirm && sawHeldRefusal, h)
	}()

	for op := 0; op < nops; op++ {
		// clock
		exact := false
		switch k := rng.IntN(12); {
		case k < 3:
		case k == 3:
			now = now.Add(time.Nanosecond)
		case k == 4:
			now = now.Add(500 * time.Millisecond)
		case k == 5 || k == 6:
			now = now.Add(time.Second)
		case k == 7:
			now = now.Add(30 * time.Minute)
		case k == 8:
			now = now.Add(time.Hour)
		default:
			// jump to (or 1ns before) the expiry of some finite lock, if that is not in the past
			var cands []time.Time
			for _, l := range model.locks {
				if !l.infinite && !l.expiry.Before(now) {
					cands = append(cands, l.expiry)
				}
			}
			if len(cands) > 0 {
				sort.Slice(cands, func(i, j int) bool { return cands[i].Before(cands[j]) })
				e := cands[rng.IntN(len(cands))]
				if k == 9 && e.Add(-time.Nanosecond).After(now) {
					now = e.Add(-time.Nanosecond)
				} else {
					now = e
					exact = true
				}
			}
		}
		if exact {
			r.Event("ops_at_exact_expiry", 1)
		}
		r.Event("ops", 1)

		kind := rng.IntN(100)
		if kind >= 55 && kind < 70 && len(outstanding) == 0 {
			kind = 0
		}
		// Every LockSystem method first drops what has expired; release does not look at the clock.
		if !(kind >= 55 && kind < 70) {
			if n := model.expire(now); n > 0 {
				sawExpire = true
				r.Event("locks_expired", int64(n))
			}
		}
		switch {
		case kind < 30: // Create
			name := c43Names[rng.IntN(len(c43Names))]
			spelled := c43SpellName(rng, name)
			d := LockDetails{Root: spelled, Duration: c43Durations[rng.IntN(len(c43Durations))], ZeroDepth: rng.IntN(2) == 0,
				OwnerXML: fmt.Sprintf("<o>%d</o>", rng.IntN(1000))}
			root := c43Clean(spelled)
			want := model.canCreate(root, d.ZeroDepth)
			tok, err := ls.Create(now, d)
			record("Create(%q zero=%v dur=%v) = %q,%s", spelled, d.ZeroDepth, d.Duration, tok, c43ErrName(err))
			switch {
			case err == nil && !want:
				fail("create-succeeded-despite-conflicting-live-lock", "Create(%q zero=%v) succeeded (token %q) but the model holds a conflicting live lock: %s", spelled, d.ZeroDepth, tok, c43ModelDump(model))
				return
			case err == ErrLocked && want:
				fail("create-refused-without-conflict", "Create(%q zero=%v) = ErrLocked but no live lock conflicts: %s", spelled, d.ZeroDepth, c43ModelDump(model))
				return
			case err != nil && err != ErrLocked:
				fail("create-got-"+c43ErrName(err), "Create(%q) returned %v", spelled, err)
				return
			}
			if err != nil {
				sawConflict = true
				r.Event("create_refused_conflict", 1)
				break
			}
			r.Event("create_ok", 1)
			if tok == "" || seen[tok] {
				fail("duplicate-or-empty-token", "Create returned token %q which was %s", tok, map[bool]string{true: "issued before", false: "empty"}[seen[tok]])
				return
			}
			if strings.ContainsAny(tok, " \t\r\n") {
				fail("token-contains-whitespace", "token %q", tok)
				return
			}
			seen[tok] = true
			allTokens = append(allTokens, tok)
			l := &c43Lock{token: tok, root: root, zero: d.ZeroDepth, infinite: d.Duration < 0, duration: d.Duration, owner: d.OwnerXML}
			if !l.infinite {
				l.expiry = now.Add(d.Duration)
			}
			model.locks[tok] = l

		case kind < 42: // Refresh
			tok := pickToken()
			dur := c43Durations[rng.IntN(len(c43Durations))]
			l := model.locks[tok]
			want := error(nil)
			switch {
			case l == nil:
				want = ErrNoSuchLock
			case l.held:
				want = ErrLocked
			}
			got, err := ls.Refresh(now, tok, dur)
			record("Refresh(%q, %v) = %s", tok, dur, c43ErrName(err))
			if err != want {
				fail("refresh-got-"+c43ErrName(err)+"-want-"+c43ErrName(want), "Refresh(%q,%v) = %v, model expects %v (lock in model: %s)", tok, dur, err, want, c43LockDump(l))
				return
			}
			if want == ErrLocked {
				sawHeldRefusal = true
				r.Event("refused_because_held", 1)
			}
			if err == nil {
				r.Event("refresh_ok", 1)
				l.duration, l.infinite = dur, dur < 0
				if !l.infinite {
					l.expiry = now.Add(dur)
				}
				wantD := LockDetails{Root: l.root, Duration: dur, OwnerXML: l.owner, ZeroDepth: l.zero}
				if got != wantD {
					fail("refresh-details", "Refresh(%q,%v) details %+v, want %+v", tok, dur, got, wantD)
					return
				}
			}

		case kind < 55: // Unlock
			tok := pickToken()
			l := model.locks[tok]
			want := error(nil)
			switch {
			case l == nil:
				want = ErrNoSuchLock
			case l.held:
				want = ErrLocked
			}
			err := ls.Unlock(now, tok)
			record("Unlock(%q) = %s", tok, c43ErrName(err))
			if err != want {
				fail("unlock-got-"+c43ErrName(err)+"-want-"+c43ErrName(want), "Unlock(%q) = %v, model expects %v (lock in model: %s)", tok, err, want, c43LockDump(l))
				return
			}
			if want == ErrLocked {
				sawHeldRefusal = true
				r.Event("refused_because_held", 1)
			}
			if err == nil {
				r.Event("unlock_ok", 1)
				delete(model.locks, tok)
			}

		case kind < 70: // release one outstanding confirmation
			i := rng.IntN(len(outstanding))
			hd := outstanding[i]
			outstanding = append(outstanding[:i], outstanding[i+1:]...)
			hd.release()
			for _, l := range hd.locks {
				l.held = false
			}
			record("release(%d locks)", len(hd.locks))
			r.Event("releases", 1)

		default: // Confirm
			var conds []Condition
			for i := 0; i <= rng.IntN(3); i++ {
				if rng.IntN(12) == 0 {
					conds = append(conds, Condition{ETag: `"etag"`})
				} else {
					conds = append(conds, Condition{Token: pickToken()})
				}
			}
			// names: often the root of a presented lock or something below it, else any name
			pickName := func() string {
				if l := model.locks[conds[rng.IntN(len(conds))].Token]; l != nil && rng.IntN(3) != 0 {
					n := l.root
					if rng.IntN(3) == 0 {
						for _, cand := range c43Names {
							if cand != n && c43Covers(n, false, cand) && rng.IntN(2) == 0 {
								n = cand
								break
							}
						}
					}
					return c43SpellName(rng, n)
				}
				return c43SpellName(rng, c43Names[rng.IntN(len(c43Names))])
			}
			name0, name1 := "", ""
			if rng.IntN(8) != 0 {
				if name0 = pickName(); name0 == "" {
					name0 = "/"
				}
			}
			if rng.IntN(2) == 0 {
				if name1 = pickName(); name1 == "" {
					name1 = "/"
				}
			}
			var l0, l1 *c43Lock
			wantOK := true
			if name0 != "" {
				if l0 = model.lookup(c43Clean(name0), conds); l0 == nil {
					wantOK = false
				}
			}
			if wantOK && name1 != "" {
				if l1 = model.lookup(c43Clean(name1), conds); l1 == nil {
					wantOK = false
				}
			}
			release, err := ls.Confirm(now, name0, name1, conds...)
			record("Confirm(%q,%q,%v) = %s", name0, name1, c43Conds(conds), c43ErrName(err))
			if (release == nil) == (err == nil) {
				fail("confirm-release-and-error-not-exclusive", "Confirm returned release==nil:%v err=%v", release == nil, err)
				return
			}
			if wantOK != (err == nil) || (err != nil && err != ErrConfirmationFailed) {
				want := "nil"
				if !wantOK {
					want = "ErrConfirmationFailed"
				}
				fail("confirm-got-"+c43ErrName(err)+"-want-"+want, "Confirm(%q,%q,%v) = %v, model expects %s; covering locks in model: %s / %s; model: %s",
					name0, name1, c43Conds(conds), err, want, c43LockDump(l0), c43LockDump(l1), c43ModelDump(model))
				return
			}
			if err != nil {
				r.Event("confirm_failed", 1)
				break
			}
			hd := &c43Held{release: release}
			for _, l := range []*c43Lock{l0, l1} {
				if l != nil && !l.held {
					l.held = true
					hd.locks = append(hd.locks, l)
				}
			}
			if len(hd.locks) > 0 {
				sawConfirm = true
				r.Event("confirm_ok", 1)
			} else {
				r.Event("confirm_ok_no_names", 1)
			}
			outstanding = append(outstanding, hd)
		}

		// model self-check + white-box every few ops
		if op%7 == 0 || op == nops-1 {
			var ls []*c43Lock
			for _, l := range model.locks {
				ls = append(ls, l)
			}
			for i := range ls {
				for j := i + 1; j < len(ls); j++ {
					if c43Conflict(ls[i].root, ls[i].zero, ls[j].root, ls[j].zero) {
						fail("model-overlapping-live-locks", "model holds conflicting locks %s and %s", c43LockDump(ls[i]), c43LockDump(ls[j]))
						return
					}
				}
			}
			if key, d := c43WhiteBox(impl); key != "" {
				fail(key, "%s", d)
				return
			}
			// the implementation's live set is the model's live set, modulo locks that expired
			// on the model's clock but were not collected yet (impl collects lazily too, at
			// the same instants, so the sets must be equal right after an operation that
			// looked at the clock)
			if !(kind >= 55 && kind < 70) {
				impl.mu.Lock()
				var d []string
				for tok := range impl.byToken {
					if model.locks[tok] == nil {
						d = append(d, "impl-only:"+tok)
					}
				}
				for tok, l := range model.locks {
					n := impl.byToken[tok]
					if n == nil {
						d = append(d, "model-only:"+tok)
					} else if n.held != l.held {
						d = append(d, fmt.Sprintf("held(%s) impl=%v model=%v", tok, n.held, l.held))
					}
				}
				impl.mu.Unlock()
				if len(d) > 0 {
					sort.Strings(d)
					fail("live-set-differs-from-model", "%s", strings.Join(d, " "))
					return
				}
			}
			r.Event("whitebox_checks", 1)
		}
	}
	// release everything; the lock system must end consistent
	for _, hd := range outstanding {
		hd.release()
	}
	if key, d := c43WhiteBox(impl); key != "" {
		fail(key+"-at-end", "%s", d)
	}
	if c.Index < 3 {
		r.Sample(map[string]any{"ops": nops, "last_ops": append([]string{}, log[len(log)-6:]...)})
	}
}

func c43Conds(cs []Condition) string {
	var s []string
	for _, c := range cs {
		if c.ETag != "" {
			s = append(s, "etag")
		} else {
			s = append(s, c.Token)
		}
	}
	return "[" + strings.Join(s, ",") + "]"
}

func c43LockDump(l *c43Lock) string {
	if l == nil {
		return "<none>"
	}
	e := "inf"
	if !l.infinite {
		e = l.expiry.Sub(time.Unix(1_000_000_000, 0)).String()
	}
	return fmt.Sprintf("{%s %s zero=%v expiry=%s held=%v}", l.token, l.root, l.zero, e, l.held)
}

func c43ModelDump(m *c43Model) string {
	var s []string
	for _, l := range m.locks {
		s = append(s, c43LockDump(l))
	}
	sort.Strings(s)
	return strings.Join(s, " ")
}

// c43Concurrent: several goroutines hammer one memLS. No result oracle (the interleaving is
// not recorded); checked: no panic, tokens unique, bookkeeping consistent at the end; the
// thorough tier runs it under the race detector.
func c43Concurrent(r *verifrt.R, c *verifrt.Case) {
	ls := NewMemLS()
	impl := ls.(*memLS)
	base := time.Unix(1_000_000_000, 0)
	workers := 8
	nops := r.N(2000, 8000)
	seeds := make([]uint64, workers)
	for i := range seeds {
		seeds[i] = c.Rng.Uint64()
	}
	var mu sync.Mutex
	tokens := map[string]bool{}
	var problems []string
	var wg sync.WaitGroup
	for w := 0; w < workers; w++ {
		wg.Add(1)
		go func(w int) {
			defer wg.Done()
			defer func() {
				if e := recover(); e != nil {
					mu.Lock()
					problems = append(problems, fmt.Sprintf("panic: %v", e))
					mu.Unlock()
				}
			}()
			rng := rand.New(rand.NewPCG(seeds[w], uint64(w)))
			var mine []string
			var rel []func()
			now := base
			for i := 0; i < nops; i++ {
				now = now.Add(time.Duration(rng.IntN(3)) * 400 * time.Millisecond)
				switch rng.IntN(6) {
				case 0, 1:
					tok, err := ls.Create(now, LockDetails{Root: c43Names[rng.IntN(len(c43Names))], Duration: c43Durations[rng.IntN(len(c43Durations))], ZeroDepth: rng.IntN(2) == 0})
					if err == nil {
						mu.Lock()
						if tokens[tok] {
							problems = append(problems, "duplicate token "+tok)
						}
						tokens[tok] = true
						mu.Unlock()
						mine = append(mine, tok)
					}
				case 2:
					if len(mine) > 0 {
						ls.Refresh(now, mine[rng.IntN(len(mine))], c43Durations[rng.IntN(len(c43Durations))])
					}
				case 3:
					if len(mine) > 0 {
						ls.Unlock(now, mine[rng.IntN(len(mine))])
					}
				case 4:
					if len(mine) > 0 {
						if f, err := ls.Confirm(now, c43Names[rng.IntN(len(c43Names))], "", Condition{Token: mine[rng.IntN(len(mine))]}); err == nil {
							rel = append(rel, f)
						}
					}
				case 5:
					if len(rel) > 0 {
						rel[0]()
						rel = rel[1:]
					}
				}
			}
			for _, f := range rel {
				f()
			}
		}(w)
	}
	wg.Wait()
	r.Event("concurrent_ops", int64(workers*nops))
	r.Event("concurrent_tokens", int64(len(tokens)))
	c.Describe(map[string]any{"workers": workers, "ops_each": nops})
	for _, p := range problems {
		key := "concurrent-duplicate-token"
		if strings.HasPrefix(p, "panic") {
			key = "concurrent-panic"
		}
		c.Violation(key, "%s", p)
	}
	if key, d := c43WhiteBox(impl); key != "" {
		c.Violation("concurrent-"+key, "%s", d)
	}
	r.Eval(true, "concurrent", c.Index, len(tokens))
}
